"""petruth.py - ground truth and the documented unwind procedure for PE x64 programs.

Programs are synthesized from the prolog/epilog shapes Windows compilers emit (the grammar of the
x64 exception-handling documentation): saves of non-volatile registers into the caller's home
space BEFORE the pushes (MSVC style, UWOP_SAVE_NONVOL relative to the established frame), pushes
(UWOP_PUSH_NONVOL), fixed allocation (UWOP_ALLOC_SMALL / ALLOC_LARGE both forms), optional frame
register (UWOP_SET_FPREG, lea fp,[rsp+off]) with a dynamic allocation in the body, saves after
the allocation (mov [rsp+off],reg), cold regions with chained unwind info (optionally with a
prolog of their own), leaf functions without a function-table entry; epilogs add rsp / lea
rsp,[fp+x]; pops; ret | jmp.  The text bytes are real encodings.

Two oracles, both independent of framehop, pe-unwind-info and the Coq model:
  * truth by construction: a machine executes calls and prologs; the chain of return addresses and
    the caller's registers at every call are recorded as the stack is built;
  * ms_procedure: the documented unwind procedure (frame base fixed on entry, epilog simulation,
    unwind codes in array order filtered by prolog offset, chained infos) in exact arithmetic on
    arbitrary registers and stack; returns None where the procedure does not succeed."""
import struct
from fhgen import *

RAX, RCX, RDX, RBX, RSP, RBP, RSI, RDI = range(8)
NONVOL = [3, 5, 6, 7, 12, 13, 14, 15]
# PE register number -> index in the script's register list (DWARF order)
PE2IDX = [0, 2, 1, 3, 7, 6, 4, 5, 8, 9, 10, 11, 12, 13, 14, 15]
M64 = (1 << 64) - 1

# ---------------------------------------------------------------- instruction encodings
def rex(w, r, b):
    v = 0x40 | (8 if w else 0) | (4 if r >= 8 else 0) | (1 if b >= 8 else 0)
    return v

def enc_push(r):
    return bytes([0x50 + r]) if r < 8 else bytes([0x41, 0x50 + (r - 8)])
def enc_pop(r):
    return bytes([0x58 + r]) if r < 8 else bytes([0x41, 0x58 + (r - 8)])
def enc_sub_rsp(n):
    return bytes([0x48, 0x83, 0xEC, n]) if n < 128 else bytes([0x48, 0x81, 0xEC]) + struct.pack("<I", n)
def enc_add_rsp(n):
    return bytes([0x48, 0x83, 0xC4, n]) if n < 128 else bytes([0x48, 0x81, 0xC4]) + struct.pack("<I", n)
def enc_lea_fp_rsp(fp, off):
    # lea fp, [rsp + off]
    if off < 128:
        return bytes([rex(1, fp, 0), 0x8D, 0x40 | ((fp & 7) << 3) | 4, 0x24, off])
    return bytes([rex(1, fp, 0), 0x8D, 0x80 | ((fp & 7) << 3) | 4, 0x24]) + struct.pack("<I", off)
def enc_lea_rsp_fp(fp, disp):
    # lea rsp, [fp + disp]
    if disp < 128:
        return bytes([rex(1, 0, fp), 0x8D, 0x40 | (4 << 3) | (fp & 7), disp])
    return bytes([rex(1, 0, fp), 0x8D, 0x80 | (4 << 3) | (fp & 7)]) + struct.pack("<I", disp)
def enc_mov_store(r, off):
    # mov [rsp + off], r
    if off < 128:
        return bytes([rex(1, r, 0), 0x89, 0x40 | ((r & 7) << 3) | 4, 0x24, off])
    return bytes([rex(1, r, 0), 0x89, 0x80 | ((r & 7) << 3) | 4, 0x24]) + struct.pack("<I", off)
def enc_mov_load(r, off):
    if off < 128:
        return bytes([rex(1, r, 0), 0x8B, 0x40 | ((r & 7) << 3) | 4, 0x24, off])
    return bytes([rex(1, r, 0), 0x8B, 0x80 | ((r & 7) << 3) | 4, 0x24]) + struct.pack("<I", off)
CALL = bytes([0xE8, 0, 0, 0, 0])
RET = bytes([0xC3])
JMP = bytes([0xE9, 0, 0, 0, 1])          # tail call: jmp rel32 to another function (16 MiB ahead: never inside this one)
NOP = bytes([0x90])

# ---------------------------------------------------------------- functions
class Insn:
    """kind: esave(r, off) | push(r) | sub(n) | leafp(fp, off) | save(r, off)   (prolog)
             add(n) | learsp(fp, disp) | pop(r) | ret | jmp                     (epilog)
             load(r, off) (restore of a mov-saved register before the epilog), call, nop, alloca(n)"""
    def __init__(self, kind, *a):
        self.kind, self.a = kind, a
    def enc(self):
        k, a = self.kind, self.a
        return {"esave": lambda: enc_mov_store(*a), "save": lambda: enc_mov_store(*a), "push": lambda: enc_push(*a),
                "sub": lambda: enc_sub_rsp(*a), "leafp": lambda: enc_lea_fp_rsp(*a), "add": lambda: enc_add_rsp(*a),
                "learsp": lambda: enc_lea_rsp_fp(*a), "pop": lambda: enc_pop(*a), "ret": lambda: RET,
                "jmp": lambda: (bytes([0xE9]) + (a[0] & 0xffffffff).to_bytes(4, "little")) if a else JMP,
                "load": lambda: enc_mov_load(*a), "call": lambda: (bytes([0xE8]) + a[0]) if a else CALL,
                "nop": lambda: a[0] if a else NOP,
                "alloca": lambda: enc_sub_rsp(*a)}[k]()

class Region:
    """A contiguous piece of a function with its own RUNTIME_FUNCTION / UNWIND_INFO.
    insns: list of (offset, Insn, phase) phase in prolog|body|epilog|tail ; length"""
    def __init__(self):
        self.insns = []          # (off, insn, phase)
        self.length = 0
        self.codes = []          # unwind codes: (prolog_off, op) in array order (descending offset)
        self.fpreg = None
        self.fpoff = 0
        self.chain = None        # index of the parent region (in PeFunc.regions)
        self.begin = 0           # rva, assigned at layout
        self.uid = None
    def emit(self, insn, phase):
        off = self.length
        self.insns.append((off, insn, phase))
        self.length += len(insn.enc())
        return off
    def text(self):
        return b"".join(i.enc() for _, i, _ in self.insns)

class PeFunc:
    def __init__(self, name, shape):
        self.name, self.shape = name, shape
        self.regions = []
        self.leaf = False
        self.fpreg, self.fpoff, self.saved, self.cold_extra = None, 0, [], 0

# body instructions: none of them starts an epilog (add rsp / lea rsp / pop / ret / jmp), but their bytes are
# what a parser sees when it looks at a return address minus one (the last displacement byte of the call)
FILLERS = [bytes([0x90]), bytes([0x2B, 0xC3]), bytes([0x48, 0x89, 0xD8]), bytes([0x31, 0xC0]), bytes([0x85, 0xC0]),
           bytes([0x48, 0x8B, 0x04, 0x24]), bytes([0x0F, 0x1F, 0x40, 0x00]), bytes([0x29, 0xD8]), bytes([0x21, 0xC8])]
# branches that stay inside the function (a loop's back edge, the jump over an else arm, a jump to the next
# instruction): `jmp rel8` / `jmp rel32` are also what a tail call looks like, only the target tells them apart
# (forward ones only: a filler may be the first instruction of a region, and a jump to the region's first byte is
# what a recursive tail call looks like)
LOCAL_JUMPS = [bytes([0xEB, 0x00]), bytes([0xE9, 0, 0, 0, 0])]
def filler(rng):
    if rng.chance(1, 5):
        return Insn("nop", rng.choice(LOCAL_JUMPS))
    return Insn("nop", rng.choice(FILLERS))
def call(rng):
    # forward and backward calls: the last displacement byte is 0x00 or 0xff in practice
    hi = rng.choice([0x00, 0xFF, 0x00, 0xFF, rng.below(256)])
    return Insn("call", bytes([rng.below(256), rng.below(256), 0x00 if hi == 0 else (0xFF if hi == 0xFF else rng.below(256)), hi]))

def make_func(rng, name, shape=None, force=None):
    shape = shape or rng.choice(["push", "push", "msvc", "msvc", "fp", "fp", "fpsave", "chained", "chained2", "large", "leaf"])
    f = PeFunc(name, shape)
    r0 = Region()
    f.regions.append(r0)
    if shape == "leaf":
        f.leaf = True
        for _ in range(rng.range(1, 4)):
            r0.emit(Insn("nop"), "body")
        r0.emit(Insn("ret"), "body")
        return f
    nv = list(NONVOL)
    rng.shuffle(nv)
    use_fp = shape in ("fp", "fpsave") or (shape in ("chained", "chained2") and rng.chance(1, 2))
    fpreg = None
    if use_fp:
        fpreg = rng.choice([5, 5, 5, 3, 6, 7, 13, 14, 15])
        nv.remove(fpreg)
    npush = rng.range(0, 4)
    if force and "npush" in force:
        npush = force["npush"]
    pushes = nv[:npush]
    rest = nv[npush:]
    if use_fp:
        pushes = [fpreg] + pushes
    nearly = rng.range(1, 3) if shape == "msvc" or (shape in ("chained", "large") and rng.chance(1, 2)) else 0
    earlies = rest[:nearly]
    rest = rest[nearly:]
    nsave = rng.range(1, 2) if shape == "fpsave" or (shape in ("push", "large") and rng.chance(1, 3)) else 0
    if force:
        nearly, nsave, earlies = 0, 0, []
    saves = rest[:nsave]
    # every non-leaf function allocates the 32 bytes of home space its callees may use
    if force and "alloc" in force:
        alloc = force["alloc"]
    elif shape == "large":
        alloc = rng.choice([0x88, 0x1000, 0x7fff8, 0x80000, 0x100010])
    elif shape == "chained2" and not use_fp and rng.chance(1, 3):
        # primary allocation just below 512 KiB: together with the cold region's own allocation the frame exceeds it
        alloc = rng.choice([0x7fff8, 0x7ffc0, 0x7ff88])
    else:
        alloc = 32 + 8 * rng.range(0, 12) + 8 * nsave
    fpoff = 0
    if use_fp:
        fpoff = 16 * rng.range(0, min(15, alloc // 16))
    codes = []
    # --- prolog
    for i, r in enumerate(earlies):
        # mov [rsp + 8*(i+1)], r : into the caller's home space; unwind offset is from the ESTABLISHED frame
        r0.emit(Insn("esave", r, 8 * (i + 1)), "prolog")
        codes.append((r0.length, ("save", r, alloc + 8 * len(pushes) + 8 * (i + 1))))
    for r in pushes:
        r0.emit(Insn("push", r), "prolog")
        codes.append((r0.length, ("pop", r)))
    if alloc:
        r0.emit(Insn("sub", alloc), "prolog")
        codes.append((r0.length, ("alloc", alloc)))
    if use_fp:
        r0.emit(Insn("leafp", fpreg, fpoff), "prolog")
        codes.append((r0.length, ("setfp",)))
        r0.fpreg, r0.fpoff = fpreg, fpoff
    save_offs = []
    for i, r in enumerate(saves):
        off = 32 + 8 * i + (8 * rng.range(0, (min(alloc, 0x400) - 32 - 8 * nsave) // 8) if i == 0 else save_offs[0] - 32)
        save_offs.append(off)
        r0.emit(Insn("save", r, off), "prolog")
        codes.append((r0.length, ("save", r, off)))
    # compilers record every mov-save with the offset of the END of the prolog and list them first: they take
    # effect only once the frame is established, and their offsets are relative to that established frame
    pend = r0.length
    sv = [(pend, op) for (o, op) in codes if op[0] == "save"]
    r0.codes = list(reversed(sv)) + [(o, op) for (o, op) in reversed(codes) if op[0] != "save"]
    f.saved = list(earlies) + list(pushes) + list(saves)       # registers this function may clobber in its body
    f.fpreg, f.fpoff, f.alloc, f.pushes, f.earlies, f.saves, f.save_offs = fpreg, fpoff, alloc, pushes, earlies, saves, save_offs
    # --- body
    def body(reg, ncalls):
        for _ in range(ncalls):
            for _ in range(rng.range(0, 3)):
                reg.emit(filler(rng), "body")
            reg.emit(call(rng), "body")
        for _ in range(rng.range(0, 2)):
            reg.emit(filler(rng), "body")
        if reg.length > 8:
            # a loop's back edge: `jmp rel8` with a NEGATIVE displacement to some byte inside the function (not its first)
            # - read without its sign it would point 256 bytes further, out of the function (seeded change C03-20)
            d = rng.range(1, min(reg.length - 1, 100))
            reg.emit(Insn("nop", bytes([0xEB, (256 - 2 - d) & 0xff])), "body")
    def epilog(reg, extra=0, term="ret"):
        # restores of mov-saved registers are ordinary body instructions
        for r, off in zip(saves, save_offs):
            reg.emit(Insn("load", r, off + extra), "body")
        for i, r in enumerate(earlies):
            reg.emit(Insn("load", r, alloc + extra + 8 * len(pushes) + 8 * (i + 1)), "body")
        if use_fp:
            reg.emit(Insn("learsp", fpreg, alloc - fpoff), "epilog")
        elif alloc + extra:
            reg.emit(Insn("add", alloc + extra), "epilog")
        for r in reversed(pushes):
            reg.emit(Insn("pop", r), "epilog")
        if term == "jmpself":
            # a tail call to the function's own first instruction (self recursion in tail position): the one jump that
            # stays inside the function's range and still ends an epilog (seeded change C03-18 took it for a branch)
            reg.emit(Insn("jmp", -(reg.length + 5)), "epilog")
        else:
            reg.emit(Insn(term), "epilog")
    if rng.chance(1, 3):
        # a long body: offsets beyond 0x100 / 0x200 whose low byte is smaller than the prolog's code offsets
        for j in range(rng.choice([130, 280])):
            r0.emit(filler(rng), "body")
            if j % 24 == 23:
                r0.emit(call(rng), "body")
        f.long = True
    body(r0, rng.range(1, 3))
    if shape in ("chained", "chained2"):
        # the hot region jumps to a cold region placed elsewhere; the cold region's info chains to the primary
        r0.emit(filler(rng), "body")
        if rng.chance(1, 2):
            epilog(r0, 0, rng.choice(["ret", "ret", "jmp", "jmpself"]))
        else:
            r0.emit(call(rng), "body")          # ends with a call that does not return
        r1 = Region()
        r1.chain = 0
        r1.fpreg, r1.fpoff = r0.fpreg, r0.fpoff
        f.regions.append(r1)
        f.cold_extra = 0
        if shape == "chained2" and not use_fp:
            # the cold region has a prolog of its own: a further allocation
            extra = 8 * rng.range(1, 9)
            r1.emit(Insn("sub", extra), "prolog")
            r1.codes = [(r1.length, ("alloc", extra))]
            f.cold_extra = extra
        body(r1, rng.range(1, 2))
        epilog(r1, f.cold_extra, rng.choice(["ret", "jmp"]))
    else:
        f.cold_extra = 0
        if rng.chance(1, 4):
            # early return in the middle, then more body
            epilog(r0, 0, "ret")
            body(r0, rng.range(1, 2))
        if rng.chance(1, 6):
            r0.emit(call(rng), "body")          # noreturn call: the return address is the end of the function
        else:
            epilog(r0, 0, rng.choice(["ret", "ret", "jmp", "jmpself"]))
    return f

def make_program(rng, nfuncs=8, only=None):
    """only = [(shape, force)]: exactly these functions (for checks that need every step to be of one kind)"""
    if only is not None:
        funcs = [make_func(rng, "f%d" % i, sh, force=fo) for i, (sh, fo) in enumerate(only)]
    else:
        funcs = [make_func(rng, "f%d" % i) for i in range(nfuncs)]
        shapes = [f.shape for f in funcs]
        for need in ("msvc", "fp", "chained", "leaf"):
            if need not in shapes:
                funcs.append(make_func(rng, "f%d" % len(funcs), need))
        # the largest allocation the 16-bit form of UWOP_ALLOC_LARGE can state, with nothing pushed before it: with the
        # return address the frame is exactly 65536 words
        funcs.append(make_func(rng, "f%d" % len(funcs), "large", force=dict(npush=0, alloc=rng.choice([0x7fff8, 0x7fff8, 0x7fff0]))))
        # all eight non-volatile registers pushed: the epilog `pop` x 8 + ret is 13 bytes long - longer than any limit
        # counted in INSTRUCTIONS that someone might apply to bytes (seeded change C03-15)
        funcs.append(make_func(rng, "f%d" % len(funcs), "push", force=dict(npush=8, alloc=0x28)))
        # ... and one whose allocation needs the 32-bit form and does not fit 16 bits when divided by 8, with pushes only
        # (the cacheable pop rule cannot hold it: the step must be interpreted; seeded change C03-7 truncated it)
        funcs.append(make_func(rng, "f%d" % len(funcs), "large", force=dict(npush=rng.range(0, 3), alloc=rng.choice([0x80000, 0x80040, 0x100010]))))
    # layout: regions in shuffled order, separated by int3 padding
    regs = [(f, k) for f in funcs for k in range(len(f.regions))]
    rng.shuffle(regs)
    pos = 0x1000
    for f, k in regs:
        reg = f.regions[k]
        pos = (pos + 15) & ~15 if rng.chance(1, 2) else pos
        reg.begin = pos
        pos += reg.length
        if rng.chance(1, 2):
            pos += rng.range(1, 9)
    text_lo = 0x1000
    text = bytearray([0xCC] * (pos - text_lo + 16))
    for f, k in regs:
        reg = f.regions[k]
        t = reg.text()
        text[reg.begin - text_lo: reg.begin - text_lo + len(t)] = t
    # function table and unwind infos
    table = []
    uinfos = {}
    uid = 0
    for f in funcs:
        if f.leaf:
            continue
        for k, reg in enumerate(f.regions):
            reg.uid = uid; uid += 1
    for f in funcs:
        if f.leaf:
            continue
        for k, reg in enumerate(f.regions):
            u = dict(fpreg=reg.fpreg, fpoff=reg.fpoff, ops=list(reg.codes), chain=None, prolog=max([o for o, _ in reg.codes] + [0]))
            if reg.chain is not None:
                par = f.regions[reg.chain]
                u["chain"] = par.uid
                u["chain_begin"], u["chain_end"] = par.begin, par.begin + par.length
            uinfos[reg.uid] = u
            table.append((reg.begin, reg.begin + reg.length, reg.uid))
    table.sort()
    return dict(funcs=funcs, table=table, uinfos=uinfos, text_lo=text_lo, text=bytes(text))

# ---------------------------------------------------------------- the machine (truth by construction)
def boundaries(f):
    """All interruption points of f: (region index, offset, phase of the NEXT instruction, index of next insn)."""
    out = []
    for k, reg in enumerate(f.regions):
        for i, (off, insn, phase) in enumerate(reg.insns):
            out.append((k, off, phase, i))
    return out

def exit_blocks(reg):
    """[(first index, last index)] of the exits of a region: restores of mov-saved registers, then the epilog."""
    out = []
    i = 0
    n = len(reg.insns)
    while i < n:
        if reg.insns[i][1].kind == "load" or reg.insns[i][2] == "epilog":
            j = i
            while reg.insns[j][1].kind not in ("ret", "jmp"):
                j += 1
            out.append((i, j)); i = j + 1
        else:
            i += 1
    return out

def execute(f, k, upto, regs, mem, rng):
    """Run f from its entry up to (not including) instruction index `upto` of region k.  Control reaches a cold
    region by a jump out of the hot body; exits not leading to the stopping point are jumped over.  After the
    prolog the function gives new values to the registers it saved (and allocates dynamically when it has a
    frame register); calls are stepped over (non-volatile registers and rsp come back unchanged)."""
    def step(insn, extra):
        kd, a = insn.kind, insn.a
        if kd in ("esave", "save"):
            mem[regs[RSP] + a[1]] = regs[a[0]]
        elif kd == "push":
            regs[RSP] -= 8; mem[regs[RSP]] = regs[a[0]]
        elif kd in ("sub", "alloca"):
            regs[RSP] -= a[0]
        elif kd == "leafp":
            regs[a[0]] = regs[RSP] + a[1]
        elif kd == "add":
            regs[RSP] += a[0]
        elif kd == "learsp":
            regs[RSP] = regs[a[0]] + a[1]
        elif kd == "pop":
            regs[a[0]] = mem[regs[RSP]]; regs[RSP] += 8
        elif kd == "load":
            # frame-register functions address their save slots through the frame register
            base = regs[RSP] if f.fpreg is None else regs[f.fpreg] - f.fpoff
            regs[a[0]] = mem[base + a[1]]
    def clobber():
        for r in f.saved:
            if r != f.fpreg:
                regs[r] = rng.u64() & M64
        for v in (0, 1, 2, 8, 9, 10, 11):
            regs[v] = rng.u64() & M64
        if f.fpreg is not None and rng.chance(1, 2):
            regs[RSP] -= 16 * rng.range(1, 8)
    path = [0] if k == 0 else [0, k]
    clobbered = False
    for rk in path:
        reg = f.regions[rk]
        blocks = exit_blocks(reg)
        i = 0
        while i < len(reg.insns):
            if rk == k and i == upto:
                return
            off, insn, phase = reg.insns[i]
            blk = [b for b in blocks if b[0] == i]
            if blk and not (rk == k and blk[0][0] <= upto <= blk[0][1]):
                i = blk[0][1] + 1            # an exit that is not taken
                continue
            if phase == "body" and not clobbered and rk == 0 and not f.leaf:
                clobbered = True
                clobber()
            step(insn, 0)
            i += 1
        if rk == k:
            return

def make_scenario(rng, prog, base, stack_top, depth, inner=None):
    """A call chain root -> ... -> innermost, the innermost stopped at a random instruction boundary
    (inner = (function, boundary) forces the innermost frame)."""
    funcs = prog["funcs"]
    callers = [f for f in funcs if not f.leaf]
    regs = [rng.u64() & M64 for _ in range(16)]
    mem = {}
    regs[RSP] = stack_top
    # thread start pushed a null return address
    regs[RSP] -= 8; mem[regs[RSP]] = 0
    chain_funcs = [rng.choice(callers) for _ in range(depth - 1)] + [inner[0] if inner else rng.choice(funcs)]
    truth = []            # per frame, innermost last: (ra of this frame, caller regs after return)
    frames = []
    caller_state = None
    ra_in = 0
    for d, f in enumerate(chain_funcs):
        innermost = (d == depth - 1)
        entry_regs = list(regs)
        if not innermost:
            # pick a call site in any region
            sites = [(k, i) for k, reg in enumerate(f.regions) for i, (off, insn, ph) in enumerate(reg.insns) if insn.kind == "call"]
            k, i = rng.choice(sites)
            execute(f, k, i, regs, mem, rng)
            reg = f.regions[k]
            ra = base + reg.begin + reg.insns[i][0] + 5
            state_at_call = list(regs)
            frames.append(dict(func=f, region=k, ra_in=ra_in, after=None))
            truth.append(dict(ra=ra_in, func=f, caller_regs=caller_state, pc=ra, kind="caller", regs_in=state_at_call))
            caller_state = state_at_call
            regs[RSP] -= 8; mem[regs[RSP]] = ra
            ra_in = ra
            # volatile registers are garbage at callee entry
            for v in (0, 1, 2, 8, 9, 10, 11):
                regs[v] = rng.u64() & M64
        else:
            bs = boundaries(f)
            k, off, phase, i = inner[1] if inner else rng.choice(bs)
            execute(f, k, i, regs, mem, rng)
            reg = f.regions[k]
            pc = base + reg.begin + off
            truth.append(dict(ra=ra_in, func=f, caller_regs=caller_state, pc=pc, kind="first", regs_in=list(regs),
                              phase=phase, region=k, off=off, insn=reg.insns[i][1].kind))
    truth.reverse()
    return dict(mem=mem, frames=truth, regs=list(regs), pc=truth[0]["pc"])

# ---------------------------------------------------------------- the documented procedure
def lookup(prog, rva):
    for (b, e, u) in prog["table"]:
        if b <= rva < e:
            return (b, e, u)
    return None

def region_of(prog, rva):
    for f in prog["funcs"]:
        for k, reg in enumerate(f.regions):
            if reg.begin <= rva < reg.begin + reg.length:
                return f, k, reg
    return None

def epilog_at(prog, rva):
    """The remaining epilog instructions when rva is an instruction boundary inside an epilog, else None.
    (By construction: the generator knows which instructions form epilogs.)"""
    r = region_of(prog, rva)
    if r is None:
        return None
    f, k, reg = r
    for i, (off, insn, phase) in enumerate(reg.insns):
        if off == rva - reg.begin:
            if phase != "epilog":
                return None
            out = []
            for (o2, i2, p2) in reg.insns[i:]:
                out.append(i2)
                if i2.kind in ("ret", "jmp"):
                    return out
            return None
    return None

class Fail(Exception):
    pass

def ms_procedure(prog, rva, regs, mem, check_epilog=True):
    """regs: list of 16 (PE numbering).  Returns (ra, regs') or None when the procedure does not succeed
    (unreadable stack, address arithmetic leaving 64 bits, missing data)."""
    regs = list(regs)
    def rd(a):
        if a < 0 or a > M64 - 7 or a not in mem:
            raise Fail()
        return mem[a]
    def chk(v):
        if v < 0 or v > M64:
            raise Fail()
        return v
    try:
        ent = lookup(prog, rva)
        if ent is None:
            ra = rd(regs[RSP]); regs[RSP] = chk(regs[RSP] + 8)
            return ra, regs
        b, e, uid = ent
        u = prog["uinfos"][uid]
        if check_epilog:
            ep = epilog_at(prog, rva)
            if ep is not None:
                for ins in ep:
                    if ins.kind == "add":
                        regs[RSP] = chk(regs[RSP] + ins.a[0])
                    elif ins.kind == "learsp":
                        regs[RSP] = chk(regs[ins.a[0]] + ins.a[1])
                    elif ins.kind == "pop":
                        regs[ins.a[0]] = rd(regs[RSP]); regs[RSP] = chk(regs[RSP] + 8)
                ra = rd(regs[RSP]); regs[RSP] = chk(regs[RSP] + 8)
                return ra, regs
        offset = rva - b
        # the frame base is fixed on entry
        if u.get("fpreg") is None:
            frame = regs[RSP]
        else:
            established = u.get("chain") is not None or any(op[0] == "setfp" and o <= offset for o, op in u["ops"])
            frame = (regs[u["fpreg"]] - u["fpoff"]) if established else regs[RSP]
        first = True
        while True:
            for (o, op) in u["ops"]:
                if first and o > offset:
                    continue
                k = op[0]
                if k == "pop":
                    regs[op[1]] = rd(regs[RSP]); regs[RSP] = chk(regs[RSP] + 8)
                elif k == "alloc":
                    regs[RSP] = chk(regs[RSP] + op[1])
                elif k == "setfp":
                    regs[RSP] = chk(regs[u["fpreg"]] - u["fpoff"])
                elif k == "save":
                    regs[op[1]] = rd(chk(frame + op[2]))
                elif k == "savexmm":
                    rd(chk(frame + op[1])); rd(chk(frame + op[1] + 8))
                elif k == "mach":
                    o2 = 8 if op[1] else 0
                    ra = rd(chk(regs[RSP] + o2))
                    regs[RSP] = rd(chk(regs[RSP] + o2 + 24))
                    return ra, regs
            if u.get("chain") is None:
                break
            u = prog["uinfos"][u["chain"]]
            first = False
        ra = rd(regs[RSP]); regs[RSP] = chk(regs[RSP] + 8)
        return ra, regs
    except Fail:
        return None

def script_regs(ip, regs):
    vals = [0] * 16
    for pe, v in enumerate(regs):
        vals[PE2IDX[pe]] = v
    return " ".join([hx(ip)] + [hx(v) for v in vals])

def regs_from_script(tokens):
    """tokens: ip + 16 values in script order -> (ip, PE-numbered list)"""
    vals = [int(t, 16) for t in tokens]
    ip, rest = vals[0], vals[1:]
    return ip, [rest[PE2IDX[pe]] for pe in range(16)]
