"""vlib.py - the machinery shared by every property check (bin/vcheck):
   A. proof gate (regenerate Consts.v, make the property's theorem file, capture Print
      Assumptions, scan for forbidden constructs, coqchk in the thorough tier)
   B. build the Rust harness against /repo's working tree (hooks on) and the OCaml model driver
   C/D. run scripts on both sides
   E/F. judge, search, verdict, evidence.
"""
import os, sys, re, json, subprocess, time, hashlib, glob

ROOT = os.path.dirname(os.path.dirname(os.path.abspath(__file__)))
COQ = os.path.join(ROOT, "coq")
BUILD = os.path.join(ROOT, ".build")
OCAML = os.path.join(BUILD, "ocaml")
TARGET = os.path.join(BUILD, "target")
REPLAYS = os.path.join(ROOT, "replays")
EVIDENCE = os.path.join(ROOT, "evidence")
GUARD = "framehop_verif"

FORBIDDEN = re.compile(r"\b(Admitted|admit|Axiom|Axioms|Parameter|Parameters|Conjecture|Conjectures|"
                       r"Unset\s+Guard|bypass_check|Admit\s+Obligations|type-in-type|impredicative-set|"
                       r"Unset\s+Positivity|Unset\s+Universe)\b")

def sh(cmd, cwd=None, timeout=1800, env=None):
    e = dict(os.environ)
    e["CARGO_NET_OFFLINE"] = "true"
    if env:
        e.update(env)
    p = subprocess.run(cmd, shell=True, cwd=cwd, capture_output=True, text=True, timeout=timeout, env=e)
    return p.returncode, p.stdout + p.stderr

# ---------------------------------------------------------------- A. proof gate
def strip_coq_comments(s):
    out = []
    depth = 0
    i = 0
    while i < len(s):
        if s.startswith("(*", i):
            depth += 1; i += 2
        elif s.startswith("*)", i) and depth > 0:
            depth -= 1; i += 2
        else:
            if depth == 0:
                out.append(s[i])
            i += 1
    return "".join(out)

def coq_cone(prop_file):
    """Files (relative to coq/) that Props/<prop>.v depends on, transitively, via coqdep."""
    files = []
    with open(os.path.join(COQ, "_CoqProject")) as f:
        for l in f:
            l = l.strip()
            if l.endswith(".v"):
                files.append(l)
    rc, out = sh("coqdep -Q . FH " + " ".join(files), cwd=COQ)
    deps = {}
    for l in out.splitlines():
        m = re.match(r"^(\S+)\.vo\b[^:]*:\s*(.*)$", l)
        if not m:
            continue
        tgt = m.group(1) + ".v"
        ds = [d[:-3] + ".v" for d in m.group(2).split() if d.endswith(".vo")]
        deps[tgt] = ds
    seen = []
    def walk(f):
        if f in seen:
            return
        seen.append(f)
        for d in deps.get(f, []):
            walk(d)
    walk(prop_file)
    return seen

def proof_gate(prop, tier):
    t0 = time.time()
    info = {"cmds": [], "ok": False, "problems": []}
    rc, out = sh("python3 tools/extract_consts.py", cwd=ROOT)
    info["cmds"].append("python3 tools/extract_consts.py")
    info["consts"] = out.strip().splitlines()[-1] if out.strip() else ""
    if "FALLBACK" in out:
        info["consts_fallbacks"] = [l for l in out.splitlines() if l.startswith("FALLBACK")]
    if not os.path.exists(os.path.join(COQ, "Makefile")):
        sh("coq_makefile -f _CoqProject -o Makefile", cwd=COQ)
    pf = "Props/%s.v" % prop
    cmd = "timeout 1500 make -j16 Props/%s.vo" % prop
    rc, out = sh(cmd, cwd=COQ, timeout=1600)
    info["cmds"].append("make -C coq -j16 Props/%s.vo" % prop)
    if rc != 0:
        info["problems"].append("make failed: " + out[-1500:])
        info["make_log"] = out[-4000:]
        info["wall"] = time.time() - t0
        return info
    # re-run coqc on the theorem file itself to capture Print Assumptions on every run
    cmd2 = "timeout 600 coqc -Q . FH %s" % pf
    rc, out = sh(cmd2, cwd=COQ, timeout=700)
    info["cmds"].append("coqc -Q . FH %s" % pf)
    if rc != 0:
        info["problems"].append("coqc failed: " + out[-1500:])
        info["wall"] = time.time() - t0
        return info
    closed = out.count("Closed under the global context")
    axioms = []
    in_ax = False
    for l in out.splitlines():
        if l.startswith("Axioms:"):
            in_ax = True
            continue
        if in_ax:
            if l and not l.startswith(" ") and ":" in l:
                axioms.append(l.split(":")[0].strip())
            elif not l.strip():
                in_ax = False
    allow = set()
    ap = os.path.join(COQ, "assumptions.allow")
    if os.path.exists(ap):
        allow = set(x.strip() for x in open(ap) if x.strip() and not x.startswith("#"))
    bad_ax = [a for a in axioms if a not in allow]
    if bad_ax:
        info["problems"].append("axioms not in allowlist: %s" % bad_ax)
    info["assumptions_closed"] = closed
    info["axioms"] = axioms
    # statements in the theorem file and Qed-closed statements in its cone
    cone = coq_cone(pf)
    n_qed = 0
    theorems = []
    for f in cone:
        src = strip_coq_comments(open(os.path.join(COQ, f)).read())
        if f != "Generated/Consts.v" and FORBIDDEN.search(src):
            info["problems"].append("forbidden construct in %s: %s" % (f, FORBIDDEN.search(src).group(0)))
        n_qed += len(re.findall(r"\bQed\.", src))
        if f == pf:
            theorems = re.findall(r"\b(?:Theorem|Example)\s+(\w+)", src)
            n_print = len(re.findall(r"Print Assumptions", src))
            if n_print == 0:
                info["problems"].append("no Print Assumptions in " + pf)
    proj = open(os.path.join(COQ, "_CoqProject")).read()
    if re.search(r"-(type-in-type|impredicative-set|vos|vok)", proj):
        info["problems"].append("forbidden flag in _CoqProject")
    info["theorems"] = theorems
    info["obligations"] = n_qed
    info["cone"] = cone
    if tier == "thorough":
        cmd3 = "timeout 1500 coqchk -o -silent -Q . FH FH.Props.%s" % prop
        rc, out = sh(cmd3, cwd=COQ, timeout=1600)
        info["cmds"].append("coqchk -o -silent -Q . FH FH.Props.%s" % prop)
        info["coqchk"] = out[-1500:]
        if rc != 0:
            info["problems"].append("coqchk failed")
        else:
            m = re.search(r"\* Axioms:\s*(.*?)(?:\n\s*\n|\n\*|$)", out, re.S)
            axs = m.group(1).strip() if m else ""
            if axs and "<none>" not in axs:
                extra = [a.strip() for a in axs.splitlines() if a.strip() and a.strip() not in allow]
                if extra:
                    info["problems"].append("coqchk axioms: %s" % extra)
    info["ok"] = not info["problems"]
    info["wall"] = time.time() - t0
    return info

# ---------------------------------------------------------------- B. builds
def build_harness(features=None, release=False):
    """cargo build of /verif/harness against /repo's working tree, hooks on."""
    args = ["cargo", "build", "--offline"]
    if release:
        args.append("--release")
    tdir = TARGET
    if features is not None:
        args += ["--no-default-features"]
        if features:
            args += ["--features", ",".join(features)]
        tdir = os.path.join(BUILD, "target-feat")
    cmd = " ".join(args)
    env = {"RUSTFLAGS": "--cfg %s" % GUARD, "CARGO_TARGET_DIR": tdir}
    rc, out = sh(cmd, cwd=os.path.join(ROOT, "harness"), timeout=1500, env=env)
    path = os.path.join(tdir, "release" if release else "debug", "fh-harness")
    return rc == 0, path, cmd, out

def build_driver():
    """(Re-)extract the model and compile the OCaml driver when any input is newer."""
    os.makedirs(OCAML, exist_ok=True)
    drv = os.path.join(OCAML, "driver")
    rc, out = sh("timeout 1500 make -j16 Model/X86Unw.vo Model/A64Unw.vo Model/Policy.vo Model/Macho.vo", cwd=COQ, timeout=1600)
    if rc != 0:
        return False, drv, out
    inputs = glob.glob(os.path.join(COQ, "Model", "*.vo")) + glob.glob(os.path.join(COQ, "Generated", "*.vo")) + \
        [os.path.join(COQ, "Extract.v"), os.path.join(ROOT, "ocaml", "driver.ml")]
    newest = max(os.path.getmtime(p) for p in inputs)
    if os.path.exists(drv) and os.path.getmtime(drv) >= newest:
        return True, drv, "up to date"
    rc, out = sh("coqc -Q %s FH %s/Extract.v" % (COQ, COQ), cwd=OCAML, timeout=900)
    if rc != 0:
        return False, drv, out
    rc, out2 = sh("cp %s/ocaml/driver.ml . && ocamlfind ocamlopt -w -a model.mli model.ml driver.ml -o driver" % ROOT,
                  cwd=OCAML, timeout=900)
    return rc == 0, drv, out + out2

# ---------------------------------------------------------------- C/D. running
def parse_out(text):
    res = {}
    for l in text.splitlines():
        m = re.match(r"^(\d+) (.*)$", l)
        if m:
            res[int(m.group(1))] = m.group(2)
    return res

def run_impl(binpath, script_path, hang_ms=4000, timeout=900):
    try:
        p = subprocess.run([binpath, script_path, str(hang_ms)], capture_output=True, text=True, timeout=timeout)
        return parse_out(p.stdout), p.returncode
    except subprocess.TimeoutExpired as e:
        out = e.stdout.decode() if isinstance(e.stdout, bytes) else (e.stdout or "")
        return parse_out(out), -9

def run_model(drv, script_path, timeout=900):
    p = subprocess.run([drv, script_path], capture_output=True, text=True, timeout=timeout)
    return parse_out(p.stdout), p.returncode, p.stderr

EFF_RE = re.compile(r"; eff (\d+) (\d+)$")
def norm(line, keep_alloc=True, keep_touch=True):
    """Canonical form for model-vs-implementation comparison."""
    if line is None:
        return None
    m = EFF_RE.search(line)
    if m:
        t = "1" if int(m.group(1)) > 0 else "0"
        a = "1" if int(m.group(2)) > 0 else "0"
        line = line[:m.start()] + "; eff %s %s" % (t if keep_touch else "x", a if keep_alloc else "x")
    if line.startswith("panic "):
        parts = line.split()
        line = " ".join(parts[:2])
    line = re.sub(r"\| panic (own|dep) \S+", r"| panic \1", line)
    return line

def outcome(line):
    """first field group of an unwind/exec result line: ('ok','some',ra) / ('ok','none') / ('err',kind,addr) / ('panic',own|dep, loc) / ('hang',)"""
    if line is None:
        return ("missing",)
    t = line.split()
    if not t:
        return ("missing",)
    if t[0] == "ok":
        if len(t) > 1 and t[1] == "some":
            return ("ok", "some", int(t[2], 16))
        return ("ok", "none")
    if t[0] == "err":
        return ("err", t[1], int(t[2], 16) if len(t) > 2 and t[2].startswith("0x") else None)
    if t[0] == "panic":
        return ("panic", t[1] if len(t) > 1 else "?", t[2] if len(t) > 2 else "")
    if t[0] == "hang":
        return ("hang",)
    return (t[0],)

def regs_of(line):
    m = re.search(r"; regs ([^;]*)", line or "")
    if not m:
        return None
    return [int(x, 16) for x in m.group(1).split()]

def stats_of(line):
    m = re.search(r"; stats (\d+) (\d+) (\d+) (\d+)", line or "")
    return [int(x) for x in m.groups()] if m else None

def eff_of(line):
    m = EFF_RE.search(line or "")
    return (int(m.group(1)), int(m.group(2))) if m else None

# ---------------------------------------------------------------- known findings
def load_known(prop):
    known = []
    p = os.path.join(ROOT, "known_findings.txt")
    if os.path.exists(p):
        for l in open(p):
            l = l.strip()
            m = re.match(r"^known:\s+property=(\S+)\s+class=(\S+)\s+(.*)$", l)
            if m and m.group(1) == prop:
                known.append((m.group(2), m.group(3)))
    return known

# ---------------------------------------------------------------- evidence
def write_evidence(prop, data):
    os.makedirs(EVIDENCE, exist_ok=True)
    with open(os.path.join(EVIDENCE, prop + ".json"), "w") as f:
        json.dump(data, f, indent=1, sort_keys=True)
        f.write("\n")
