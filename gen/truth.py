"""truth.py - ground-truth scenarios: synthesized programs (function shapes with per-boundary CFI
rows, as a compiler emits them), call chains through them, the thread's registers and stack memory
at any interruption point of the innermost frame, and the TRUE chain of return addresses with the
caller's sp/fp after every step.  The truth is by construction (it is how the stack was built), not
computed by any unwinder."""
from fhgen import *

class Boundary:
    """State of a function at one instruction boundary.
    off      code offset from the function start
    spd      entry_sp - sp   (bytes pushed/allocated so far; entry_sp = sp at function entry)
    row      the CFI row in force
    fp_set   the frame pointer register holds this frame's base (value = CFA + fp_val_off)
    saved    dict name -> offset from CFA where the caller's value of 'fp' / 'ra' is stored (if stored yet)
    call     this boundary is a call site in the body: (return offset)  or None"""
    def __init__(self, off, spd, row, fp_set=None, saved=None, call=None, kind="body"):
        self.off, self.spd, self.row, self.fp_set, self.saved, self.call, self.kind = off, spd, row, fp_set, saved or {}, call, kind

class Func:
    def __init__(self, name, shape, bounds, length, signing=False, vendor_at=None):
        self.name, self.shape, self.bounds, self.length, self.signing, self.vendor_at = name, shape, bounds, length, signing, vendor_at
        # an epilogue that is followed by more body: compilers bracket it with remember/restore_state
        self.remember_at, self.restore_at = [], []
        for i, b in enumerate(bounds):
            if b.kind == "epilogue" and (i == 0 or bounds[i - 1].kind != "epilogue"):
                j = i
                while j < len(bounds) and bounds[j].kind == "epilogue":
                    j += 1
                if j < len(bounds):
                    self.remember_at.append(b.off); self.restore_at.append(bounds[j].off)
    def rows(self):
        return [(b.off, b.row) for b in self.bounds]
    def call_sites(self):
        return [b for b in self.bounds if b.call is not None]

def R(arch):
    return ARCH_REGS[arch]

# ------------------------------------------------------------------ x86_64 shapes
def x86_fp_func(name, rng, npush=None, alloc=None, early=False, noreturn=False, prepush=0):
    """prepush: callee-saved registers pushed BEFORE the frame record is set up (push rbx; push rbp; mov rbp,rsp -
    hand-written assembly, some JITs and -fno-omit-frame-pointer with shrink wrapping): rbp then points at the slot
    with the caller's rbp, but the return address is not at [rbp+8]: CFA = rbp+16+8*prepush"""
    r = R("x86")
    npush = rng.range(0, 3) if npush is None else npush
    alloc = 8 * rng.range(0, 6) if alloc is None else alloc
    k = 8 * prepush
    b = []
    off = 0
    for i in range(prepush):
        b.append(Boundary(off, 8 * i, dict(cfa=("r", r["sp"], 8 + 8 * i), fp=("s",), ra=("o", -8)), kind="entry" if i == 0 else "prologue")); off += 1
    b.append(Boundary(off, k, dict(cfa=("r", r["sp"], 8 + k), fp=("s",), ra=("o", -8)), kind="prologue" if prepush else "entry")); off += 1      # push rbp
    slot = -16 - k
    b.append(Boundary(off, 8 + k, dict(cfa=("r", r["sp"], 16 + k), fp=("o", slot), ra=("o", -8)), saved={"fp": slot}, kind="prologue")); off += 3   # mov rbp,rsp
    body_row = dict(cfa=("r", r["fp"], 16 + k), fp=("o", slot), ra=("o", -8))
    spd = 8 + k
    for i in range(npush):
        b.append(Boundary(off, spd, body_row, fp_set=slot, saved={"fp": slot}, kind="prologue")); off += 2; spd += 8
    if alloc:
        b.append(Boundary(off, spd, body_row, fp_set=slot, saved={"fp": slot}, kind="prologue")); off += 4; spd += alloc
    # body with call sites
    ncalls = rng.range(1, 3)
    for i in range(ncalls):
        b.append(Boundary(off, spd, body_row, fp_set=slot, saved={"fp": slot}, call=off + 5, kind="body")); off += 5
        b.append(Boundary(off, spd, body_row, fp_set=slot, saved={"fp": slot}, kind="body")); off += rng.range(1, 6)
    def epilogue(off, spd):
        out = []
        if alloc:
            out.append(Boundary(off, spd, body_row, fp_set=slot, saved={"fp": slot}, kind="epilogue")); off += 4; spd -= alloc
        for i in range(npush):
            out.append(Boundary(off, spd, body_row, fp_set=slot, saved={"fp": slot}, kind="epilogue")); off += 2; spd -= 8
        out.append(Boundary(off, spd, body_row, fp_set=slot, saved={"fp": slot}, kind="epilogue")); off += 1          # pop rbp
        for i in range(prepush):
            out.append(Boundary(off, k - 8 * i, dict(cfa=("r", r["sp"], 8 + k - 8 * i), fp=("s",), ra=("o", -8)), kind="epilogue")); off += 1   # pop rbx
        out.append(Boundary(off, 0, dict(cfa=("r", r["sp"], 8), fp=("s",), ra=("o", -8)), kind="epilogue")); off += 1   # ret
        return out, off
    if early:
        e, off = epilogue(off, spd); b += e
        b.append(Boundary(off, spd, body_row, fp_set=slot, saved={"fp": slot}, call=off + 5, kind="body")); off += 5
        b.append(Boundary(off, spd, body_row, fp_set=slot, saved={"fp": slot}, kind="body")); off += 2
    if noreturn:
        b.append(Boundary(off, spd, body_row, fp_set=slot, saved={"fp": slot}, call=off + 5, kind="tailcall")); off += 5
    else:
        e, off = epilogue(off, spd); b += e
    return Func(name, "latefp" if prepush else "fp", b, off)

def x86_frameless_func(name, rng, npush=None, alloc=None, early=False, noreturn=False, bp_first=False):
    r = R("x86")
    npush = rng.range(0, 3) if npush is None else npush
    alloc = 8 * rng.range(0 if npush else 1, 6) if alloc is None else alloc
    # which push (if any) saves rbp; afterwards the function uses rbp as a scratch register
    bp_push = rng.below(npush) if npush and rng.chance(1, 2) else None
    if bp_first:
        bp_push = 0
    b = []
    off = 0
    spd = 0
    state = {"slot": None}
    def row(spd):
        if state["slot"] is not None:
            return dict(cfa=("r", r["sp"], 8 + spd), fp=("o", state["slot"]), ra=("o", -8))
        return dict(cfa=("r", r["sp"], 8 + spd), fp=("s",), ra=("o", -8))
    def mk(off, spd, **kw):
        bd = Boundary(off, spd, row(spd), **kw)
        if state["slot"] is not None:
            bd.saved = dict(bd.saved, fp=state["slot"]); bd.fp_scratch = True
        return bd
    for i in range(npush):
        b.append(mk(off, spd, kind="entry" if i == 0 else "prologue")); off += 2; spd += 8
        if bp_push == i:
            state["slot"] = -8 - spd
    if alloc:
        b.append(mk(off, spd, kind="entry" if not b else "prologue")); off += 4; spd += alloc
    ncalls = rng.range(1, 3)
    for i in range(ncalls):
        b.append(mk(off, spd, call=off + 5, kind="body")); off += 5
        b.append(mk(off, spd, kind="body")); off += rng.range(1, 6)
    def epilogue(off, spd):
        out = []
        saved_slot = state["slot"]
        if alloc:
            out.append(mk(off, spd, kind="epilogue")); off += 4; spd -= alloc
        for i in range(npush):
            out.append(mk(off, spd, kind="epilogue")); off += 2; spd -= 8
            if bp_push is not None and (npush - 1 - i) == bp_push:
                state["slot"] = None                   # rbp popped: holds the caller's value again
        out.append(mk(off, spd, kind="epilogue")); off += 1
        state["slot"] = saved_slot
        return out, off
    full = spd
    if early:
        e, off = epilogue(off, spd); b += e
        b.append(mk(off, full, call=off + 5, kind="body")); off += 5
        b.append(mk(off, full, kind="body")); off += 2
    if noreturn:
        b.append(mk(off, full, call=off + 5, kind="tailcall")); off += 5
    else:
        e, off = epilogue(off, full); b += e
    return Func(name, "frameless", b, off)

def x86_leaf_func(name, rng):
    r = R("x86")
    row = dict(cfa=("r", r["sp"], 8), fp=("s",), ra=("o", -8))
    b = [Boundary(0, 0, row, kind="entry"), Boundary(3, 0, row, kind="body"), Boundary(7, 0, row, kind="epilogue")]
    return Func(name, "leaf", b, 8)

def root_func(name, arch, rng):
    r = R(arch)
    gran = 8 if arch == "x86" else 16
    k = rng.range(1, 4)
    row = dict(cfa=("r", r["sp"], gran * k + (8 if arch == "x86" else 0)), fp=("s",), ra=("u",))
    b = [Boundary(0, gran * k, row, kind="entry"), Boundary(4, gran * k, row, call=4 + (5 if arch == "x86" else 4), kind="body"),
         Boundary(12, gran * k, row, kind="body")]
    f = Func(name, "root", b, 16)
    return f

# ------------------------------------------------------------------ aarch64 shapes
def a64_fp_func(name, rng, frame=None, signing=False, early=False, noreturn=False, fp_cfa=None):
    r = R("a64")
    frame = 16 * rng.range(1, 5) if frame is None else frame
    fp_cfa = rng.chance(1, 2) if fp_cfa is None else fp_cfa
    b = []
    off = 0
    entry_row = dict(cfa=("r", r["sp"], 0), fp=("s",), ra=("s",))
    vendor_at = None
    if signing:
        b.append(Boundary(off, 0, entry_row, kind="entry")); off += 4            # paciasp
        vendor_at = off
    b.append(Boundary(off, 0, entry_row, kind="entry" if not signing else "prologue")); off += 4   # stp x29,x30,[sp,#-frame]!
    saved_row = dict(cfa=("r", r["sp"], frame), fp=("o", -frame), ra=("o", -frame + 8))
    b.append(Boundary(off, frame, saved_row, saved={"fp": -frame, "ra": -frame + 8}, kind="prologue")); off += 4   # mov x29, sp
    body_row = dict(cfa=("r", r["fp"], frame), fp=("o", -frame), ra=("o", -frame + 8)) if fp_cfa else saved_row
    ncalls = rng.range(1, 3)
    for i in range(ncalls):
        b.append(Boundary(off, frame, body_row, fp_set=-frame, saved={"fp": -frame, "ra": -frame + 8}, call=off + 4, kind="body")); off += 4
        b.append(Boundary(off, frame, body_row, fp_set=-frame, saved={"fp": -frame, "ra": -frame + 8}, kind="body")); off += 4 * rng.range(1, 3)
    def epilogue(off):
        out = [Boundary(off, frame, body_row, fp_set=-frame, saved={"fp": -frame, "ra": -frame + 8}, kind="epilogue")]; off += 4   # ldp x29,x30,[sp],#frame
        out.append(Boundary(off, 0, entry_row, kind="epilogue")); off += 4          # (autiasp) ret
        if signing:
            out.append(Boundary(off, 0, entry_row, kind="epilogue")); off += 4
        return out, off
    if early:
        e, off = epilogue(off); b += e
        b.append(Boundary(off, frame, body_row, fp_set=-frame, saved={"fp": -frame, "ra": -frame + 8}, call=off + 4, kind="body")); off += 4
        b.append(Boundary(off, frame, body_row, fp_set=-frame, saved={"fp": -frame, "ra": -frame + 8}, kind="body")); off += 4
    if noreturn:
        b.append(Boundary(off, frame, body_row, fp_set=-frame, saved={"fp": -frame, "ra": -frame + 8}, call=off + 4, kind="tailcall")); off += 4
    else:
        e, off = epilogue(off); b += e
    return Func(name, "fp-sign" if signing else "fp", b, off, signing=signing, vendor_at=vendor_at)

def a64_frameless_func(name, rng, frame=None, noreturn=False, top_slot=False):
    """sub sp; str x30,[sp,#k] (no frame record)"""
    r = R("a64")
    frame = 16 * rng.range(1, 5) if frame is None else frame
    slot = 8 * rng.range(0, frame // 8 - 1)
    if top_slot:
        slot = frame - 8 * rng.range(1, 2)          # lr saved at the top of a large frame
    b = []
    off = 0
    entry_row = dict(cfa=("r", r["sp"], 0), fp=("s",), ra=("s",))
    b.append(Boundary(off, 0, entry_row, kind="entry")); off += 4             # sub sp, sp, #frame
    b.append(Boundary(off, frame, dict(cfa=("r", r["sp"], frame), fp=("s",), ra=("s",)), kind="prologue")); off += 4   # str x30
    body_row = dict(cfa=("r", r["sp"], frame), fp=("s",), ra=("o", slot - frame))
    for i in range(rng.range(1, 3)):
        b.append(Boundary(off, frame, body_row, saved={"ra": slot - frame}, call=off + 4, kind="body")); off += 4
        b.append(Boundary(off, frame, body_row, saved={"ra": slot - frame}, kind="body")); off += 4
    if noreturn:
        b.append(Boundary(off, frame, body_row, saved={"ra": slot - frame}, call=off + 4, kind="tailcall")); off += 4
    else:
        b.append(Boundary(off, frame, body_row, saved={"ra": slot - frame}, kind="epilogue")); off += 4       # ldr x30
        b.append(Boundary(off, frame, dict(cfa=("r", r["sp"], frame), fp=("s",), ra=("s",)), kind="epilogue")); off += 4  # add sp
        b.append(Boundary(off, 0, entry_row, kind="epilogue")); off += 4
    return Func(name, "frameless", b, off)

def a64_leaf_func(name, rng):
    r = R("a64")
    row = dict(cfa=("r", r["sp"], 0), fp=("s",), ra=("s",))
    b = [Boundary(0, 0, row, kind="entry"), Boundary(4, 0, row, kind="body"), Boundary(8, 0, row, kind="epilogue")]
    return Func(name, "leaf", b, 12)

def a64_fpleaf_func(name, rng):
    """a leaf that spills only x29 (uses it as a scratch register): str x29,[sp,#-16]!; ...; ldr x29,[sp],#16; ret -
    the row restores fp but not lr (lr is still in the register)"""
    r = R("a64")
    row0 = dict(cfa=("r", r["sp"], 0), fp=("s",), ra=("s",))
    row1 = dict(cfa=("r", r["sp"], 16), fp=("o", -16), ra=("s",))
    b = [Boundary(0, 0, row0, kind="entry")]
    for off in (4, 8, 12):
        bd = Boundary(off, 16, row1, saved={"fp": -16}, kind="body"); bd.fp_scratch = off > 4
        b.append(bd)
    b.append(Boundary(16, 0, row0, kind="epilogue"))
    return Func(name, "fpleaf", b, 20)

def a64_gpfp_func(name, rng, noreturn=False):
    """code built without frame records (-fomit-frame-pointer; AAPCS64 lets a platform use x29 as a general-purpose
    callee-saved register): sub sp; stp x29,x30,[sp,#k]; mov x29,#junk; ... calls ...; ldp x29,x30,[sp,#k]; add sp; ret.
    The CFA stays sp-based; x29 and x30 are restored from their slots, and what the caller had in x29 is just a value"""
    r = R("a64")
    frame = 16 * rng.range(2, 6)
    slot = 16 * rng.range(0, frame // 16 - 1)
    b = []
    off = 0
    entry_row = dict(cfa=("r", r["sp"], 0), fp=("s",), ra=("s",))
    b.append(Boundary(off, 0, entry_row, kind="entry")); off += 4             # sub sp, sp, #frame
    b.append(Boundary(off, frame, dict(cfa=("r", r["sp"], frame), fp=("s",), ra=("s",)), kind="prologue")); off += 4   # stp x29, x30
    body_row = dict(cfa=("r", r["sp"], frame), fp=("o", slot - frame), ra=("o", slot + 8 - frame))
    sv = {"fp": slot - frame, "ra": slot + 8 - frame}
    b.append(Boundary(off, frame, body_row, saved=sv, kind="body")); off += 4          # mov x29, #junk
    for i in range(rng.range(1, 3)):
        bd = Boundary(off, frame, body_row, saved=sv, call=off + 4, kind="body"); bd.fp_scratch = True; b.append(bd); off += 4
        bd = Boundary(off, frame, body_row, saved=sv, kind="body"); bd.fp_scratch = True; b.append(bd); off += 4
    if noreturn:
        bd = Boundary(off, frame, body_row, saved=sv, call=off + 4, kind="tailcall"); bd.fp_scratch = True; b.append(bd); off += 4
    else:
        bd = Boundary(off, frame, body_row, saved=sv, kind="epilogue"); bd.fp_scratch = True; b.append(bd); off += 4     # ldp x29, x30
        b.append(Boundary(off, frame, dict(cfa=("r", r["sp"], frame), fp=("s",), ra=("s",)), kind="epilogue")); off += 4  # add sp
        b.append(Boundary(off, 0, entry_row, kind="epilogue")); off += 4
    return Func(name, "gpfp", b, off)

def make_program_gpfp(rng, nfuncs=6):
    """an aarch64 program without a single frame record: every function is sp-based (see a64_gpfp_func); no row refers
    to x29 as a base, so whatever its callers keep in x29 is restored like any other callee-saved register"""
    funcs = [root_func("root", "a64", rng)]
    for i in range(nfuncs):
        c = rng.below(6)
        if c < 3:
            f = a64_gpfp_func("g%d" % i, rng, noreturn=rng.chance(1, 6))
        elif c < 5:
            f = a64_frameless_func("f%d" % i, rng, noreturn=rng.chance(1, 6))
        else:
            f = a64_leaf_func("l%d" % i, rng)
        funcs.append(f)
    funcs.append(a64_gpfp_func("g%d" % nfuncs, rng))
    funcs.append(a64_fpleaf_func("l%d" % nfuncs, rng))
    for f in funcs:
        f.arch = "a64"
    pos = 0x1000
    for f in funcs:
        f.start = pos
        pos += f.length + (0 if f.bounds[-1].kind == "tailcall" else rng.choice([0, 0, 4, 16]))
    return funcs

def valfp_func(name, rng, arch):
    """a function entered only from callers whose frame pointer equals their stack pointer at the call (aarch64: every
    frame-record function after `mov x29, sp`; x86_64: `push rbp; mov rbp, rsp` without further pushes): its CFI states
    the caller's frame pointer as a VALUE, DW_CFA_val_offset(fp, 0) = CFA, and the function is free to clobber fp"""
    f = x86_frameless_func(name, rng, npush=0, alloc=8 * rng.range(1, 6)) if arch == "x86" else a64_frameless_func(name, rng)
    for bd in f.bounds:
        bd.row = dict(bd.row, fp=("vo", 0))
        if bd.kind != "entry" and arch == "x86":
            # (x86_64 only: the aarch64 rules insist that every caller's x29 is a frame pointer above the callee's -
            # a platform convention framehop relies on - so no aarch64 function of the programs uses x29 as scratch
            # while it has callees)
            bd.fp_scratch = True
    f.shape = "valfp"; f.valfp = True
    return f

# ------------------------------------------------------------------ programs and scenarios
def make_program(rng, arch, nfuncs=8):
    funcs = [root_func("root", arch, rng)]
    for i in range(nfuncs):
        c = rng.below(8)
        if arch == "x86":
            if c < 3:
                f = x86_fp_func("f%d" % i, rng, early=rng.chance(1, 4), noreturn=rng.chance(1, 6))
            elif c < 7:
                f = x86_frameless_func("f%d" % i, rng, early=rng.chance(1, 4), noreturn=rng.chance(1, 6))
            else:
                f = x86_leaf_func("f%d" % i, rng)
            if i == nfuncs - 3:
                f = x86_fp_func("f%d" % i, rng, prepush=rng.range(1, 2))
            if i >= nfuncs - 2:
                # two functions with a frame around the limits of the compressed rules (i16 / u16 slots of 8 bytes):
                # push rbp; [push]; sub rsp, N   with rbp's slot 256 KiB and more above rsp
                f = x86_frameless_func("f%d" % i, rng, npush=rng.range(1, 2),
                                       alloc=rng.choice([0x3fff0, 0x3fff8, 0x40000, 0x40008, 0x50000, 0x7ffe8, 0x7fff0, 0x80000]),
                                       bp_first=True)
                f.shape = "bigframe"
        else:
            if c < 4:
                f = a64_fp_func("f%d" % i, rng, signing=rng.chance(1, 3), early=rng.chance(1, 4), noreturn=rng.chance(1, 6))
            elif c < 7:
                f = a64_frameless_func("f%d" % i, rng, noreturn=rng.chance(1, 6))
            else:
                f = a64_leaf_func("f%d" % i, rng)
            if i >= nfuncs - 2:
                f = a64_frameless_func("f%d" % i, rng, frame=rng.choice([0x3fff0, 0x40000, 0x40010, 0x50000, 0xffff0, 0x100000]), top_slot=True)
                f.shape = "bigframe"
        funcs.append(f)
    funcs.append(valfp_func("v0", rng, arch))
    if arch == "x86":
        g = x86_fp_func("p0", rng, npush=0, alloc=0); g.fp_is_sp = True
        funcs.append(g)
    else:
        funcs.append(a64_fpleaf_func("l0", rng))
    for f in funcs:
        f.arch = arch
    # lay out: adjacent, sometimes with gaps; function after a noreturn one starts right at its end
    pos = 0x1000
    for f in funcs:
        f.start = pos
        pos += f.length + (0 if f.bounds[-1].kind == "tailcall" else rng.choice([0, 0, 4, 16]))
    return funcs

EXTRA_REGS = {"x86": [3, 12, 13, 14, 15] + list(range(17, 25)),          # rbx, r12-r15, xmm0-7
              "a64": list(range(19, 29)) + list(range(72, 80))}           # x19-x28, d8-d15
def program_fdes(funcs, base_svma):
    """FDEs as a compiler emits them: besides the CFA, the frame pointer and the return address, every function
    also describes the other callee-saved registers it spills (framehop does not use those rules, the CFI
    interpreter has to carry them)"""
    return [dict(start=base_svma + f.start, len=f.length, rows=f.rows(), vendor_at=f.vendor_at,
                 remember_at=tuple(f.remember_at), restore_at=tuple(f.restore_at),
                 extra_regs=tuple(EXTRA_REGS.get(getattr(f, "arch", None), ())[: (len(f.name) * 7 + f.length) % 19]))
            for f in funcs]

PAC = 0x5a << 56

def make_scenario(rng, arch, funcs, base_avma, stack_top, depth, sign_mask=None):
    """Returns dict(pc, regs(sp,fp,lr), mem dict, chain=[(ra, caller_sp, caller_fp),...] innermost first)."""
    root = funcs[0]
    others = [f for f in funcs[1:] if f.shape not in ("leaf", "fpleaf")]
    leaves = [f for f in funcs[1:] if f.shape in ("leaf", "fpleaf")]
    chain_funcs = [root] + [rng.choice(others) for _ in range(depth - 1)]
    if leaves and rng.chance(1, 3):
        chain_funcs.append(rng.choice(leaves))
    else:
        chain_funcs.append(rng.choice(others))
    # now and then a val_offset function behind a caller that meets its entry condition (fp == sp at the call)
    vf = [f for f in funcs if getattr(f, "valfp", False)]
    ok_callers = [f for f in funcs[1:] if getattr(f, "fp_is_sp", False) or (arch == "a64" and f.shape in ("fp", "fp-sign"))]
    if vf and ok_callers and len(chain_funcs) >= 3 and rng.chance(1, 4):
        i = rng.range(2, len(chain_funcs) - 1)
        chain_funcs[i - 1] = rng.choice(ok_callers); chain_funcs[i] = vf[0]
    mem = {}
    x86 = arch == "x86"
    # root frame
    sp = stack_top
    fpv = stack_top + 0x30      # the thread's frame pointer is not null below the root (null = end-of-chain marker, C11)
    frames = []     # per activation: (func, boundary, cfa, ra (return address INTO the caller or None for root), caller_sp, caller_fp)
    ra_in = None    # return address this activation returns to
    lr_reg = 0
    for idx, f in enumerate(chain_funcs):
        innermost = idx == len(chain_funcs) - 1
        if getattr(f, "valfp", False) and (idx == 0 or fpv != sp):
            # its entry condition does not hold behind this caller: somebody else is called instead
            f = rng.choice([g for g in others if not getattr(g, "valfp", False)])
            chain_funcs[idx] = f
        entry_sp = sp if (idx == 0) else (sp - 8 if x86 else sp)
        if idx > 0 and x86:
            mem[entry_sp] = ra_in
        cfa = entry_sp + (8 if x86 else 0) if idx > 0 else None
        if innermost:
            b = rng.choice(f.bounds)
        else:
            b = rng.choice(f.call_sites())
        if idx == 0:
            # the root: its row declares RA undefined; CFA = sp + const
            cur_sp = sp
            cfa = cur_sp + b.row["cfa"][2]
        else:
            cur_sp = entry_sp - b.spd
        caller_fp = fpv
        # saved registers
        if "fp" in b.saved:
            mem[cfa + b.saved["fp"]] = caller_fp
        if "ra" in b.saved and idx > 0:
            v = ra_in
            if f.signing:
                v |= PAC
            mem[cfa + b.saved["ra"]] = v
        if b.fp_set is not None:
            fpv = cfa + b.fp_set
        elif getattr(b, "fp_scratch", False):
            fpv = 0x5c7a7c40 + 8 * idx                  # rbp used as a general-purpose register
        if not x86 and idx > 0:
            if "ra" in b.saved:
                lr_reg = 0xdead0000 + idx            # lr was clobbered by this function's own calls (irrelevant)
            else:
                lr_reg = ra_in
                if f.signing and f.vendor_at is not None and b.off >= f.vendor_at and b.kind != "epilogue":
                    lr_reg |= PAC
        frames.append(dict(func=f, b=b, cfa=cfa, ra=ra_in, caller_sp=None, caller_fp=caller_fp, sp=cur_sp, fp=fpv))
        if not innermost:
            ra_in = base_avma + f.start + b.call
            sp = cur_sp
            if not x86:
                lr_reg = ra_in
    inner = frames[-1]
    pc = base_avma + inner["func"].start + inner["b"].off
    # fill the rest of the window with plausible junk
    lo = min([fr["sp"] for fr in frames]) - 64
    if stack_top - lo <= 0x4000:
        spans = [(lo & ~7, stack_top + 64)]
    else:
        # large frames: only the neighbourhood of every frame's two ends
        spans = [(stack_top - 0x200, stack_top + 64)]
        for fr in frames:
            spans += [((fr["sp"] - 64) & ~7, (fr["sp"] & ~7) + 0x100), ((fr["cfa"] & ~7) - 0x100, (fr["cfa"] & ~7) + 64)]
    for a0, a1 in spans:
        for a in range(a0, a1, 8):
            mem.setdefault(a, 0x0bad0000 + ((a - stack_top) & 0xff8))
    chain = []
    for k in range(len(frames) - 1, 0, -1):
        fr = frames[k]
        chain.append((fr["ra"], fr["cfa"], fr["caller_fp"]))
    regs = dict(sp=inner["sp"], fp=inner["fp"], lr=lr_reg if not x86 else 0)
    return dict(pc=pc, regs=regs, mem=mem, chain=chain, frames=frames)
