"""C18 - concurrently created/modified unwinders get distinct module-set identities.
The theorem is over the interleaving model whose step list is regenerated from the source. Support
(not the proof): a real-thread stress run reading the identities through the verification hook, and
sequential histories comparing every identity with the model."""
import vlib, suites, subprocess
from fhgen import *

RULE = ("sequential histories of new/add/remove(known and unknown start)/clone/clone_from comparing every identity handed out with "
        "the model; plus 16 real threads x ops of new/add_module/remove_module (x runs), all identities read through "
        "verif_modules_generation and checked pairwise distinct; distinct = op kind x outcome")
ASSUMPTIONS = ["AtomicU16::fetch_add is one indivisible read-modify-write even with Ordering::Relaxed (hardware / Rust memory model; not provable here)",
               "fewer than 65536 identities per process"]
TRUSTED_BASE = ["tools/extract_consts.py maps the body of next_global_modules_generation() to atomic steps"]

def generate(rng, tier):
    out = []
    for rep in range(6 if tier == "quick" else 60):
        arch = "x86" if rep % 2 == 0 else "a64"
        s = Script(arch)
        for i in range(6):
            s.module_none("M%d" % i, 0x1000 * (i + 1), 0x1000 * (i + 1) + 0x100, 0x1000 * (i + 1), 0)
            # another image that starts at the same address (a library reloaded at the address of an unloaded one whose
            # removal was missed): adding it is a modification of the module set like any other
            s.module_none("D%d" % i, 0x1000 * (i + 1), 0x1000 * (i + 1) + 0x80, 0x1000 * (i + 1), 0)
        unws = {}
        for _ in range(rng.range(40, 200)):
            c = rng.below(10)
            if c < 2 or not unws:
                u = "U%d" % rng.below(4)
                s.add("new " + u, tag="new"); unws[u] = set()
            else:
                u = rng.choice(sorted(unws))
                if c < 6:
                    i = rng.below(6)
                    if i not in unws[u]:
                        s.add("add %s M%d" % (u, i), tag="add"); unws[u].add(i)
                    elif rng.chance(1, 2):
                        s.add("add %s D%d" % (u, i), tag="add-same-start")
                elif c < 8:
                    if unws[u]:
                        i = rng.choice(sorted(unws[u])); s.add("remove %s %s" % (u, hx(0x1000 * (i + 1))), tag="remove-known"); unws[u].discard(i)
                    else:
                        s.add("remove %s 0x999" % u, tag="remove-unknown")
                elif c < 9:
                    s.add("remove %s %s" % (u, hx(rng.choice([0x999, 0x1001, 0]))), tag="remove-unknown")
                else:
                    v = "U%d" % rng.below(4)
                    if v in unws and v != u and rng.chance(1, 2):
                        s.add("clonefrom %s %s" % (v, u), tag="clonefrom")         # Clone::clone_from on an existing unwinder
                    else:
                        s.add("clone %s %s" % (u, v), tag="clone")
                    unws[v] = set(unws[u])
        out.append(("gens-%s-%d" % (arch, rep), s))
    # what the identities are for: two unwinders with different modules at one address, one cache, any address
    from props import C06
    for bi, b in enumerate(C06.HIGH_BASES):
        out.append(C06.two_unwinders(rng, "x86" if bi % 2 == 0 else "a64", b, "two-%d" % bi))
    return out

def judge(script, impl):
    """Sequential: identities handed out by new/add/remove-known are pairwise distinct; clone and
    remove-unknown hand out nothing new."""
    from props import C06
    bad = list(C06.judge(script, impl))
    seen = {}
    cur = {}
    for ln in sorted(impl):
        toks = script.lines[ln - 1].split()
        line = impl[ln]
        if not line.startswith("gen "):
            continue
        g = int(line.split()[1])
        tag = script.tags.get(ln, "")
        if toks[0] == "new" or toks[0] == "add" or tag == "remove-known":
            if g in seen:
                bad.append((ln, "identity %d handed out twice (lines %d and %d)" % (g, seen[g], ln)))
            seen[g] = ln
            cur[toks[1]] = g
        elif toks[0] == "clone":
            if cur.get(toks[1]) != g:
                bad.append((ln, "clone does not share its source's identity"))
            cur[toks[2]] = g
        elif toks[0] == "clonefrom":
            # the refreshed unwinder has the source's modules: it must not keep the identity it had with its old modules
            if cur.get(toks[2]) != g:
                bad.append((ln, "clone_from left the destination with identity %d although its module set is now the source's (identity %s): "
                                "a shared cache serves it rules computed for its old modules" % (g, cur.get(toks[2]))))
            cur[toks[1]] = g
        elif tag == "remove-unknown":
            if cur.get(toks[1]) != g:
                bad.append((ln, "removing an unknown start changed the identity"))
    return bad

def extra_checks(R, rng, tier):
    runs = 5 if tier == "quick" else 25
    nthreads, ops = 16, 2000
    total = 0
    viol = []
    hist = {}
    for r in range(runs):
        p = subprocess.run([R.bin, "--threads", str(nthreads), str(ops), str(rng.below(1 << 30))],
                           capture_output=True, text=True, timeout=300)
        gens = [l.split() for l in p.stdout.splitlines() if l.strip()]
        total += len(gens)
        if p.returncode != 0 or len(gens) != nthreads * ops:
            viol.append(("thread stress run failed (exit %d, %d identities)" % (p.returncode, len(gens)), p.stderr[-500:]))
            continue
        seen = {}
        for t, g in gens:
            if g in seen:
                viol.append(("identity %s handed out to thread %s and thread %s in one process" % (g, seen[g], t),
                             "fh-harness --threads %d %d  (run %d)" % (nthreads, ops, r)))
                break
            seen[g] = t
        hist[r] = len(seen)
    return {"violations": viol, "evaluations": total,
            "info": {"thread_runs": runs, "threads": nthreads, "ops_per_thread": ops, "identities_checked": total}}

def project(script, ln, line):
    return vlib.norm(line)
