"""C12 - same CFI, any presentation. Oracle on the real code (independent of the model): the same FDE
set is registered three times (.eh_frame+.eh_frame_hdr, .eh_frame alone, .debug_frame) at three load
addresses; every probe is made in all three and must (a) agree and (b) use the covering FDE (each
FDE's row has its own sp delta) or the uncovered treatment (leaf in first frames, frame pointer in
caller frames)."""
import vlib, suites
from fhgen import *

RULE = ("FDE sets (1..200 quick, up to 4000 thorough; shuffled section order, 1-3 CIEs, gaps, adjacent and single-byte "
        "ranges, absolute / pc-relative / 4-byte pointers, CIEs grouped with their FDEs or first with interleaved FDEs and per-CIE encodings, aarch64 vendor opcodes, abs8 / GNU hdr encodings), probes at every boundary +-1, in gaps, "
        "before the first and after the last FDE, as ip and as ra; distinct = (arch, address kind, covered/gap/below/above)")
ASSUMPTIONS = ["FDE ranges pairwise disjoint, non-empty, starts within 4 GiB above the image base (Props/C12.v fdes_wf)",
               "the .eh_frame_hdr table lists every FDE sorted by start (producer contract)"]
TRUSTED_BASE = ["modelled not verified: gimli (EhHdrTable::lookup by contract, FDE parsing), slice::sort_by_key, binary_search"]

def empty_twin_scripts(rng):
    out = []
    # empty FDEs (length 0: what linkers leave behind for discarded COMDAT / ICF-folded functions) that share their
    # start with the real function emitted AFTER them: the FDE covering an address inside that function is the real
    # one. framehop's own index (.eh_frame alone, .debug_frame) keeps the section order among equal starts (a stable
    # sort) and takes the last entry at or below the address; 48 such pairs, the pairs themselves in shuffled order
    # (seeded changes C01-17 / C12-12 dropped entries with equal starts, C01-18 sorted unstably - which shows only
    # beyond 20 unsorted entries)
    for ai, arch in enumerate(("x86", "a64")):
        gran = 8 if arch == "x86" else 16
        s = Script(arch, "may" if ai == 0 else "must")
        npairs = 48
        fdes = []
        for i in range(npairs):
            st = 0x1000 + 0x40 * i
            fdes.append(dict(start=st, len=0, rows=[(0, suites.std_row(arch, "frameless", 2))]))                 # 2i: empty
            fdes.append(dict(start=st, len=0x30, rows=[(0, suites.std_row(arch, "frameless", 3 + i % 50))]))   # 2i+1: real
        pairs = list(range(npairs))
        rng.shuffle(pairs)
        order = [x for i in pairs for x in (2 * i, 2 * i + 1)]
        bases = {}
        for j, pres in enumerate(("eh", "debug")):
            ba = 0x10000000 * (j + 1)
            s.module_dwarf("D%d" % j, ba, ba + 0x2000, ba, 0, pres, fdes, rng, order=order)
            bases[pres] = ba
        s.mem("S", [(0x7000 + 8 * i, 0x50000 + i) for i in range(250)] + [(0x7800, 0x7900), (0x7808, 0x66666)])
        s.add("new U"); s.add("add U D0"); s.add("add U D1")
        for i in range(npairs):
            for pres in ("eh", "debug"):
                for rel in (1, 0x2f):
                    kind = "ip" if (i + rel) % 2 == 0 else "ra"
                    a = bases[pres] + 0x1000 + 0x40 * i + rel
                    sp = 0x7000 + gran * rng.range(0, 4)
                    regs = s.regs_x86(a, sp, 0x7800) if arch == "x86" else s.regs_a64(M64, 0x4444, sp, 0x7800)
                    s.add("newcache C")
                    ln = s.add("unwind U C %s %s %s S" % (kind, hx(a if kind == "ip" else a + 1), regs), tag="%s:%s:empty-twin:%s" % (arch, pres, kind))
                    s.meta[ln] = {"twin_real": 3 + i % 50, "sp": sp, "arch": arch}
        out.append(("empty-twins-%s" % arch, s))
    return out

def generate(rng, tier):
    out = []
    sizes = [0, 1, 2, 3, 7, 40, 200] if tier == "quick" else [0, 1, 2, 3, 5, 17, 100, 300] * 6 + [800, 1500, 4000]
    for idx, nf in enumerate(sizes):
        arch = "x86" if idx % 2 == 0 else "a64"
        gran = 8 if arch == "x86" else 16
        s = Script(arch, "may" if idx % 4 < 2 else "must")
        base_svma = rng.choice([0, 0x100000000, 0x400000])
        fdes = []
        pos = base_svma + 0x1000
        if idx % 3 == 2:
            base_svma = 0
            pos = 0              # the first function starts at stated address 0 (relocatable objects, kernels, firmware)
        for i in range(nf):
            if rng.chance(1, 3):
                pos += rng.choice([1, 2, 0x10, 0x100])
            ln = rng.choice([1, 1, 2, 4, 0x10, 0x40])
            fdes.append(dict(start=pos, len=ln, rows=[(0, suites.std_row(arch, "frameless", 2 + i % 61))]))
            if arch == "a64" and i % 3 == 1:
                fdes[-1]["vendor_at"] = 0          # DW_CFA_AARCH64_negate_ra_state before the row (return-address signing)
            pos += ln
        span = pos - base_svma + 0x100
        # every other set: CIEs with different pointer encodings first, FDEs interleaved over them
        mixed = idx % 4 in (1, 2)
        bases = []
        for j, pres in enumerate(("hdr", "eh", "debug")):
            ba = 0x10000000 * (j + 1)
            # section orders: random; or two sorted runs one after the other (two object files linked together: every
            # neighbouring pair is in order, the section as a whole is not)
            nfd = len(fdes)
            order = (list(range(nfd // 2, nfd)) + list(range(nfd // 2))) if (idx + j) % 3 == 0 and nfd >= 3 else None
            # every other image does not state where its .eh_frame lies (absolute pointers need no such address)
            noaddr = pres != "debug" and not mixed and (idx // 2 + j) % 2 == 0
            s.module_dwarf("M%d" % j, ba, ba + span, ba, base_svma, pres, fdes, rng, shuffle=True, order=order,
                           n_cies=(2 + idx % 2) if mixed else rng.range(1, 3), pcrel=(pres != "debug" and rng.chance(1, 2) and not noaddr),
                           mixed=mixed, macho_names=(idx % 5 == 3), eh_noaddr=noaddr,
                           hdr_enc=rng.choice(["abs8", "gnu"]) if base_svma < 0x80000000 else "abs8")
            bases.append(ba)
        s.mem("S", [(0x7000 + 8 * i, 0x50000 + i) for i in range(250)] + [(0x7800, 0x7900), (0x7808, 0x66666)])
        s.add("new U")
        for j in range(3):
            s.add("add U M%d" % j)
        pts = set([0, 1, 0xfff, 0x1000, pos - base_svma, pos - base_svma + 1, pos - base_svma + 0x80])
        for f in (fdes if nf <= 60 else [rng.choice(fdes) for _ in range(60)] + fdes[:3] + fdes[-3:]):
            st = f["start"] - base_svma
            for a in (st - 1, st, st + 1, st + f["len"] - 1, st + f["len"], st + f["len"] + 1):
                if a >= 0:
                    pts.add(a)
        def cover(rel):
            for i, f in enumerate(fdes):
                if f["start"] - base_svma <= rel < f["start"] - base_svma + f["len"]:
                    return i
            return None
        lo, hi = (fdes[0]["start"] - base_svma if fdes else 0x1000), pos - base_svma
        for rel in sorted(p_ for p_ in pts if p_ < span):          # inside the mapped range of the images
            for kind in ("ip", "ra"):
                lines = []
                sp = 0x7000 + gran * rng.range(0, 2)
                for j in range(3):
                    a = bases[j] + rel
                    addr = a if kind == "ip" else a + 1
                    regs = s.regs_x86(a, sp, 0x7800) if arch == "x86" else s.regs_a64(M64, 0x4444, sp, 0x7800)
                    s.add("newcache F")
                    lines.append(s.add("unwind U F %s %s %s S" % (kind, hx(addr), regs)))
                c = cover(rel)
                cls = "covered" if c is not None else ("below" if rel < lo else ("above" if rel >= hi else "gap"))
                s.meta[lines[0]] = {"trio": lines, "cover": c, "sp": sp, "arch": arch, "kind": kind, "deps": lines[1:],
                                    "empty": not fdes}
                s.tags[lines[0]] = "%s:%s:%s" % (arch, kind, cls)
        if nf > 400:
            s.nomodel = True        # the extracted model rebuilds and sorts the index on every call: judged only (triple oracle)
        out.append(("fdeset-%s-%d-%d" % (arch, nf, idx), s))
    out += empty_twin_scripts(rng)
    return out

def judge_twin_real(ln, m, impl, bad):
    line = impl.get(ln)
    if line is None:
        return
    rg = vlib.regs_of(line); o = vlib.outcome(line)
    gran = 8 if m["arch"] == "x86" else 16
    nsp = (rg[8] if m["arch"] == "x86" else rg[2]) if rg else None
    if o[:2] != ("ok", "some") or nsp is None or nsp - m["sp"] != gran * m["twin_real"]:
        bad.append((ln, "address inside a function whose FDE follows an empty FDE with the same start: the covering FDE was not the one consulted: %s" % line[:300]))

def judge(script, impl):
    bad = []
    for ln, m in script.meta.items():
        if "twin_real" in m:
            judge_twin_real(ln, m, impl, bad)
            continue
        if "trio" not in m:
            continue
        res = [impl.get(x) for x in m["trio"]]
        if any(r is None for r in res):
            continue
        def key(line):
            o = vlib.outcome(line); rg = vlib.regs_of(line)
            # registers: compare sp/fp (and lr); the ip/lr written is the return address
            return (o, tuple(rg[1:]) if rg else None)
        ks = [key(r) for r in res]
        if not (ks[0] == ks[1] == ks[2]):
            bad.append((ln, "presentations disagree:\nhdr  : %s\neh   : %s\ndebug: %s" % tuple(res))); continue
        arch = m["arch"]; gran = 8 if arch == "x86" else 16
        rg = vlib.regs_of(res[0]); o = vlib.outcome(res[0])
        if rg is None:
            bad.append((ln, "no result: %s" % res[0])); continue
        new_sp = rg[8] if arch == "x86" else rg[2]
        if m["cover"] is not None:
            if o[:2] != ("ok", "some") or new_sp - m["sp"] != gran * (2 + m["cover"] % 61):
                bad.append((ln, "the covering FDE #%d was not the one consulted: %s" % (m["cover"], res[0])))
        else:
            if m["kind"] == "ip" and not m.get("empty"):
                exp = m["sp"] + (8 if arch == "x86" else 0)
            else:
                exp = 0x7800 + 16
            if o[:2] != ("ok", "some") or new_sp != exp:
                bad.append((ln, "uncovered address not treated as leaf (first frame) / frame pointer (caller): %s" % res[0]))
    return bad

def project(script, ln, line):
    return vlib.norm(line, keep_alloc=False)
