"""C01 - DWARF CFI unwinding recovers the true call chain at every instruction.
Oracle: gen/truth.py builds programs from compiler-style function shapes (frame-pointer based,
frameless with pushes / allocation, leaf, noreturn tail, early-return epilogues, aarch64 functions
that sign their return address and carry the AArch64 vendor opcode), call chains through them and
the thread state at an interruption point of the innermost frame; the true chain is known by
construction and compared with a hand-written walk on the real code (trace)."""
import vlib, suites, truth
from fhgen import *

RULE = ("synthesized programs (9 functions of mixed shapes) x call chains of depth 1..6 x interruption points of the "
        "innermost frame (every boundary kind: entry, prologue, body, call site, epilogue, tail call) x three "
        "presentations (CIEs grouped with their FDEs, or first with interleaved FDEs and per-CIE pointer encodings) x frames up to 1 MiB x two architectures x two policies; distinct = (arch, presentation, innermost shape, boundary kind)")
ASSUMPTIONS = ["CFI rows are given per instruction boundary as a compiler emits them (row level; the instruction-level "
               "machine is the stage-2 development)", "stack reader is a pure partial function"]
TRUSTED_BASE = ["modelled not verified: gimli (CFI parsing, row computation incl. the AArch64 vendor opcode)"]

def generate(rng, tier):
    out = []
    progs = 6 if tier == "quick" else 120
    for pi in range(progs):
        arch = "x86" if pi % 2 == 0 else "a64"
        policy = "may" if pi % 4 < 2 else "must"
        s = Script(arch, policy)
        funcs = truth.make_program(rng, arch)
        bases = []
        for j, pres in enumerate(("hdr", "eh", "debug")):
            base_svma = rng.choice([0, 0x100000000]) if pres != "hdr" else rng.choice([0, 0x400000])
            ba = 0x10000000 * (j + 1) + rng.choice([0, 0x1000])
            fdes = truth.program_fdes(funcs, base_svma)
            end = ba + max(f.start + f.length for f in funcs) + 0x100
            mixed = (pi // 2 + j) % 3 == 0      # CIEs first with their own pointer encodings, FDEs interleaved over them
            s.module_dwarf("M%d" % j, ba, end, ba, base_svma, pres, fdes, rng, shuffle=True,
                           n_cies=(2 + pi % 2) if mixed else rng.range(1, 2), pcrel=(pres != "debug" and rng.chance(1, 2)), mixed=mixed)
            bases.append((pres, ba))
        s.add("new U")
        for j in range(3):
            s.add("add U M%d" % j)
        nsc = 30 if tier == "quick" else 120
        for k in range(nsc):
            pres, ba = rng.choice(bases)
            sc = truth.make_scenario(rng, arch, funcs, ba, 0x7fff0000 + 0x1000 * rng.below(4), rng.range(1, 6))
            mid = "S%d" % k
            s.mem(mid, sorted(sc["mem"].items()))
            mask = (1 << 48) - 1
            regs = (s.regs_x86(sc["pc"], sc["regs"]["sp"], sc["regs"]["fp"]) if arch == "x86"
                    else s.regs_a64(mask, sc["regs"]["lr"], sc["regs"]["sp"], sc["regs"]["fp"]))
            s.add("newcache C")
            inner = sc["frames"][-1]
            ln = s.add("trace U C %s %s %s %d" % (hx(sc["pc"]), regs, mid, len(sc["chain"]) + 4),
                       tag="%s:%s:%s:%s" % (arch, pres, inner["func"].shape, inner["b"].kind))
            s.meta[ln] = {"chain": [list(c) for c in sc["chain"]], "arch": arch, "mask": mask}
            # and the iterator itself
            li = s.add("iter U C %s %s %s %d 0" % (hx(sc["pc"]), regs, mid, len(sc["chain"]) + 3))
            s.meta[li] = {"chain_iter": [c[0] for c in sc["chain"]], "mask": mask}
        out.append(("truth-%s-%s-%d" % (arch, policy, pi), s))
    # aarch64 code without frame records: x29 is a general-purpose callee-saved register there, its callers' values
    # (small integers, pointers into the heap) are restored like those of x19..x28 (seeded change C01-15 took the restored
    # value for a frame pointer and rejected it)
    for pi in range(2 if tier == "quick" else 24):
        policy = "may" if pi % 2 == 0 else "must"
        s = Script("a64", policy)
        funcs = truth.make_program_gpfp(rng)
        pres = ("hdr", "eh", "debug")[pi % 3]
        ba = 0x10000000 + 0x1000 * rng.below(16)
        base_svma = rng.choice([0, 0x400000])
        s.module_dwarf("M", ba, ba + max(f.start + f.length for f in funcs) + 0x100, ba, base_svma, pres,
                       truth.program_fdes(funcs, base_svma), rng, shuffle=True, pcrel=(pres != "debug" and rng.chance(1, 2)))
        s.add("new U"); s.add("add U M")
        for k in range(30 if tier == "quick" else 100):
            sc = truth.make_scenario(rng, "a64", funcs, ba, 0x7fff0000 + 0x1000 * rng.below(4), rng.range(2, 6))
            mid = "S%d" % k
            s.mem(mid, sorted(sc["mem"].items()))
            mask = (1 << 48) - 1
            regs = s.regs_a64(mask, sc["regs"]["lr"], sc["regs"]["sp"], sc["regs"]["fp"])
            s.add("newcache C")
            inner = sc["frames"][-1]
            ln = s.add("trace U C %s %s %s %d" % (hx(sc["pc"]), regs, mid, len(sc["chain"]) + 4),
                       tag="a64:%s:nofp:%s:%s" % (pres, inner["func"].shape, inner["b"].kind))
            s.meta[ln] = {"chain": [list(c) for c in sc["chain"]], "arch": "a64", "mask": mask}
        out.append(("truth-a64-nofp-%s-%d" % (policy, pi), s))
    # functions whose FDE follows an empty FDE with the same start (C12's stream: the CFI still describes them exactly)
    from props import C12 as _c12
    out += [("c12-" + n, sc) for n, sc in _c12.empty_twin_scripts(rng)]
    return out

def judge(script, impl):
    bad = []
    for ln, m in script.meta.items():
        line = impl.get(ln)
        if line is None:
            continue
        if "twin_real" in m:
            from props import C12 as _c12
            _c12.judge_twin_real(ln, m, impl, bad)
            continue
        items = [x.strip() for x in line[5:].split("|")]
        if "chain" in m:
            exp = []
            for (ra, sp, fp) in m["chain"]:
                exp.append("ok ra 0x%x sp=0x%x fp=0x%x" % (ra & m["mask"], sp, fp))
            exp.append("ok none")
            got = items[1:]
            if got != exp:
                k = 0
                while k < min(len(got), len(exp)) and got[k] == exp[k]:
                    k += 1
                bad.append((ln, "walk differs from the true chain at step %d: got '%s', true '%s'\nfull: %s" % (
                    k + 1, got[k] if k < len(got) else "<nothing>", exp[k] if k < len(exp) else "<end>", line[:600])))
        elif "chain_iter" in m:
            exp = ["ok ra 0x%x" % (ra & m["mask"]) for ra in m["chain_iter"]] + ["ok none", "ok none"]
            got = items[1:]
            if got[:len(exp)] != exp[:len(got)] or len(got) < len(exp) - 1:
                bad.append((ln, "iterator differs from the true chain: %s (true: %s)" % (line[:500], exp)))
    return bad

def project(script, ln, line):
    return vlib.norm(line, keep_alloc=False)
