"""C08 - position independence. Oracle on the real code: every ground-truth scenario is built twice
from the same random choices - modules mapped at other addresses (range and base moved together,
stated addresses unchanged) and the stack placed elsewhere - and the two recorded walks must differ
exactly by the load-address delta (frames) and the stack delta (sp, fp)."""
import copy
import vlib, suites, truth
from fhgen import *

RULE = ("ground-truth scenarios of C01 (all function shapes, depths 1..6, all interruption points) and frame-pointer chains "
        "of C04 and Mach-O programs of C02, each mapped twice: load deltas (page-granular, up and down, images with non-zero stated base, ranges "
        "starting above the base address, another image mapped into the gap between a base address and its text) x stack deltas; three presentations with absolute / pc-relative / data-relative "
        "pointer encodings; distinct = (arch, presentation, encoding, shape, delta class)")
ASSUMPTIONS = ["deltas keep every address inside the 64-bit space", "stack reader is a pure partial function"]
TRUSTED_BASE = ["pointer-encoding resolution happens inside gimli and is covered by this oracle only (the theorem covers framehop's own address arithmetic)"]

def clone_rng(rng):
    r = Rng(0); r.s = rng.s; return r

def generate(rng, tier):
    out = []
    progs = 6 if tier == "quick" else 100
    for pi in range(progs):
        arch = "x86" if pi % 2 == 0 else "a64"
        s = Script(arch, "may" if pi % 4 < 2 else "must")
        funcs = truth.make_program(rng, arch)
        span = max(f.start + f.length for f in funcs) + 0x100
        mods = []
        mi = 0
        for pres in ("hdr", "eh", "debug"):
            base_svma = rng.choice([0, 0x100000000, 0x400000]) if pres != "hdr" else rng.choice([0, 0x400000])
            enc = dict(pcrel=(pres != "debug" and rng.chance(1, 2)), hdr_enc=rng.choice(["abs8", "gnu"]))
            order_rng = rng.u64()
            skip = rng.choice([0, 0, 0x800]) if pres != "hdr" else rng.choice([0, 0x800])      # mapped range starts above the base address
            pair = []
            for which in range(2):
                hi_ok = arch == "x86"      # pointer authentication bits live in the upper bits on aarch64
                cands = [0x7f0000000000 + 0x1000 * rng.below(1 << 20), 0x1000 * rng.range(1, 64) + 0x200000 * mi,
                         (1 << 32) * (2 * mi + rng.range(1, 2)) - 0x1000 * rng.range(1, 2),       # image straddles a 4 GiB boundary
                         ((1 << 63) if hi_ok else (1 << 46)) + 0x1000 * rng.below(1 << 30) + 0x40000000 * mi] \
                        + ([0, 0] if mi == 1 else [])          # base address 0 is an address like any other
                ba = (0x10000000 * (mi + 1) + 0x1000 * rng.below(16)) if which == 0 else rng.choice(cands)
                if which == 1 and (pi // 2 + mi // 2) % 3 == 0:
                    ba = cands[2]          # one presentation of every program is twinned across a 4 GiB boundary (seeded change C08-1)
                if which == 1 and mi == 1 and (pi // 2) % 3 == 1:
                    ba = 0                 # ... and every third program has an image at base address 0 (seeded change C08-5)
                fdes = truth.program_fdes(funcs, base_svma)
                name = "M%d" % mi; mi += 1
                s.module_dwarf(name, ba + skip, ba + span, ba, base_svma, pres, fdes, Rng(order_rng), shuffle=True, **enc)
                pair.append((name, ba))
            mods.append((pres, enc, pair))
        s.add("new U")
        for j in range(mi):
            s.add("add U M%d" % j)
        nsc = 24 if tier == "quick" else 100
        for k in range(nsc):
            pres, enc, pair = rng.choice(mods)
            depth = rng.range(1, 6)
            top1 = 0x7fff0000
            top2 = rng.choice([0x1000000, 0x7fff0000 + 0x1000 * rng.range(1, 100), (1 << 62) + 0x5550, (1 << 64) - 0x100000])
            r1 = clone_rng(rng)
            sc1 = truth.make_scenario(r1, arch, funcs, pair[0][1], top1, depth)
            r2 = clone_rng(rng)
            sc2 = truth.make_scenario(r2, arch, funcs, pair[1][1], top2, depth)
            rng.s = r2.s
            lines = []
            for which, sc in enumerate((sc1, sc2)):
                mid = "S%d_%d" % (k, which)
                s.mem(mid, sorted(sc["mem"].items()))
                regs = (s.regs_x86(sc["pc"], sc["regs"]["sp"], sc["regs"]["fp"]) if arch == "x86"
                        else s.regs_a64((1 << 48) - 1 if pair[which][1] < (1 << 48) else M64, sc["regs"]["lr"], sc["regs"]["sp"], sc["regs"]["fp"]))
                s.add("newcache C")
                lines.append(s.add("trace U C %s %s %s %d" % (hx(sc["pc"]), regs, mid, len(sc["chain"]) + 4)))
            dm = pair[1][1] - pair[0][1]
            ds = top2 - top1
            inner = sc1["frames"][-1]
            s.meta[lines[0]] = {"twin": lines[1], "dm": dm, "ds": ds, "arch": arch, "deps": [lines[1]]}
            s.tags[lines[0]] = "%s:%s:%s:%s:%s" % (arch, pres, "pcrel" if enc["pcrel"] else enc["hdr_enc"], inner["func"].shape,
                                                   "hi" if pair[1][1] >= (1 << 63) else ("lo" if pair[1][1] < 0x10000000 else "mid"))
        out.append(("reloc-%s-%d" % (arch, pi), s))
    # interleaved placements: the text of image A starts far above A's base address, and another image B is mapped
    # into the gap between A's base and A's text (a non-PIE executable at a low base with a library below its text);
    # the twin maps B elsewhere.  Lookup must go by the mapped ranges, never by the base addresses.
    for pi in range(4 if tier == "quick" else 40):
        arch = "x86" if pi % 2 == 0 else "a64"
        s = Script(arch, "may" if pi % 4 < 2 else "must")
        funcs = truth.make_program(rng, arch)
        span = max(f.start + f.length for f in funcs) + 0x100
        OFF = 0x100000 * rng.range(1, 4)
        pres = ["hdr", "eh", "debug"][pi % 3]
        enc = dict(pcrel=(pres != "debug" and rng.chance(1, 2)), hdr_enc="abs8")
        order_rng = rng.u64()
        baseA = [0x10000000 * rng.range(1, 3), 0x50000000 + 0x1000 * rng.below(256)]
        baseB = [baseA[0] + 0x1000 * rng.range(1, 16), 0x30000000 + 0x1000 * rng.below(256)]     # first placement: inside A's gap
        names = {}
        for which in range(2):
            fa = truth.program_fdes(funcs, 0x400000 + OFF)
            # A's mapped range begins exactly at its first function (the root), OFF + 0x1000 above its base address
            s.module_dwarf("A%d" % which, baseA[which] + OFF + 0x1000, baseA[which] + OFF + span, baseA[which], 0x400000, pres, fa,
                           Rng(order_rng), shuffle=True, **enc)
            fb = truth.program_fdes(funcs, 0)
            s.module_dwarf("B%d" % which, baseB[which], baseB[which] + span, baseB[which], 0, pres, fb, Rng(order_rng), shuffle=True, **enc)
        for which in range(2):
            s.add("new U%d" % which)
            first, second = ("A", "B") if (pi // 2 + which) % 2 == 0 else ("B", "A")
            s.add("add U%d %s%d" % (which, first, which)); s.add("add U%d %s%d" % (which, second, which))
        s.mem("Z", [])
        for which in range(2):
            # the very first byte of the mapped range belongs to the root function, whose row declares the stack's end
            a0 = baseA[which] + OFF + funcs[0].start
            regs = s.regs_x86(a0, 0x7ffe0000, 0x7ffe0100) if arch == "x86" else s.regs_a64((1 << 48) - 1, 0x1234, 0x7ffe0000, 0x7ffe0100)
            s.add("newcache C")
            ln = s.add("unwind U%d C ip %s %s Z" % (which, hx(a0), regs), tag="%s:%s:gap:first-byte" % (arch, pres))
            # (aarch64: a first frame reads 'lr undefined' as same-value - known finding S14 - but still uses that row's CFA)
            s.meta[ln] = {"abs_none": True} if arch == "x86" else {"abs_sp": 0x7ffe0000 + funcs[0].bounds[0].row["cfa"][2]}
        for k in range(12 if tier == "quick" else 40):
            inA = k % 2 == 0
            loads = [(baseA[w] + OFF) if inA else baseB[w] for w in range(2)]
            depth = rng.range(1, 4)
            top1, top2 = 0x7fff0000, rng.choice([0x7fff0000, 0x7fff0000 + 0x1000 * rng.range(1, 100)])
            r1 = clone_rng(rng); sc1 = truth.make_scenario(r1, arch, funcs, loads[0], top1, depth)
            r2 = clone_rng(rng); sc2 = truth.make_scenario(r2, arch, funcs, loads[1], top2, depth)
            rng.s = r2.s
            lines = []
            for which, sc in enumerate((sc1, sc2)):
                mid = "G%d_%d" % (k, which)
                s.mem(mid, sorted(sc["mem"].items()))
                regs = (s.regs_x86(sc["pc"], sc["regs"]["sp"], sc["regs"]["fp"]) if arch == "x86"
                        else s.regs_a64((1 << 48) - 1, sc["regs"]["lr"], sc["regs"]["sp"], sc["regs"]["fp"]))
                s.add("newcache C")
                lines.append(s.add("trace U%d C %s %s %s %d" % (which, hx(sc["pc"]), regs, mid, len(sc["chain"]) + 4)))
            s.meta[lines[0]] = {"twin": lines[1], "dm": loads[1] - loads[0], "ds": top2 - top1, "arch": arch, "deps": [lines[1]],
                                "must_find": len(sc1["chain"])}
            s.tags[lines[0]] = "%s:%s:gap:%s" % (arch, pres, "A" if inA else "B")
        out.append(("gap-%s-%d" % (arch, pi), s))
    # Mach-O images (compact unwind, DWARF-deferred functions, instruction analysis) mapped away from their stated vmaddr
    import machotruth as mt
    for pi in range(4 if tier == "quick" else 40):
        arch = "x86" if pi % 2 == 0 else "a64"
        s = Script(arch, "may" if pi % 4 < 2 else "must")
        prog = mt.make_program(rng, arch)
        base_svma = 0x100000000
        bases = [0x100000000 + 0x10000 * rng.below(16), 0x100000000 + 0x10000 * rng.range(16, 4096) + (0x200000000 if rng.chance(1, 2) else 0)]
        if pi % 4 >= 2:
            bases.reverse()
        for which in range(2):
            # every other program hands over the bytes of the whole __TEXT segment (starting at the image base + 0x1000)
            # instead of the __text section
            mt.module_macho(s, "M%d" % which, prog, bases[which], base_svma, clone_rng(rng), merge=(pi % 3 != 0), seg=(pi % 2 == 1))
        rng.u64()
        for which in range(2):
            s.add("new U%d" % which); s.add("add U%d M%d" % (which, which))
        mask = (1 << 48) - 1
        for k in range(24 if tier == "quick" else 100):
            depth = rng.range(1, 5)
            top1, top2 = 0x7fff0000, rng.choice([0x7fff0000, 0x4000000, 0x7fff0000 + 0x1000 * rng.range(1, 100), (1 << 46) + 0x5550])
            r1 = clone_rng(rng); sc1 = mt.make_scenario(r1, prog, bases[0], top1, depth)
            r2 = clone_rng(rng); sc2 = mt.make_scenario(r2, prog, bases[1], top2, depth)
            rng.s = r2.s
            lines = []
            for which, sc in enumerate((sc1, sc2)):
                mid = "K%d_%d" % (k, which)
                s.mem(mid, sorted(sc["mem"].items()))
                x = sc["frames"][0]
                regs = s.regs_x86(x["pc"], x["sp"], x["fp"]) if arch == "x86" else s.regs_a64(mask, x["lr"], x["sp"], x["fp"])
                s.add("newcache C")
                lines.append(s.add("trace U%d C %s %s %s %d" % (which, hx(x["pc"]), regs, mid, len(sc["frames"]) + 3)))
            f = sc1["frames"][0]["func"]
            from props import C02 as _c02
            x0 = sc1["frames"][0]
            k2 = arch == "x86" and x0["insn"] == "jmp" and x0["index"] > 0 and x0["func"].insns[x0["index"] - 1][1].kind == "add"
            if not k2 and not any(_c02.big_bp(x["func"]) for x in sc1["frames"]):
                # the original placement against the truth (a mistake that is the same at every placement shows only here)
                s.meta[lines[1]] = {"chain": [[(x["ra"] & mask) if arch == "a64" else x["ra"], x["caller"][0], x["caller"][1]] for x in sc2["frames"][:-1]]}
            if not any(_c02.big_bp(x["func"]) for x in sc1["frames"]):
                # (walks through a function of known finding S21 of C02 continue with a garbage frame pointer taken from
                # a register: what happens to it depends on where the stack lies - not this property's subject)
                s.meta[lines[0]] = {"twin": lines[1], "dm": bases[1] - bases[0], "ds": top2 - top1, "arch": arch, "deps": [lines[1]],
                                    "code": [bases[0], bases[0] + prog["end"] + 0x100]}
            s.tags[lines[0]] = "%s:macho:%s:%s" % (arch, f.shape, sc1["frames"][0]["phase"])
        # ... and threads stopped inside __stubs / __stub_helper (first frames): the section ranges are stated addresses
        # like everything else of the image (seeded change C08-11 took them relative to where the image is mapped)
        lo, hi = prog["stubs"]
        hlo, hhi = prog["helper"]
        if arch == "x86":
            hb = [hlo + o for o in (0, 7, 9, 0xf)] + [hlo + 0x10 + 10 * k + d for k in range((hhi - hlo - 0x10) // 10) for d in (0, 5)]
        else:
            hb = list(range(hlo, hhi, 4))
        for a in list(range(lo, hi, 6 if arch == "x86" else 4))[:3] + hb[:12]:
            spv = 0x7000 + 16 * rng.below(4)
            lines = []
            for which in range(2):
                mid = "T%d" % which
                if a == lo:
                    s.mem(mid, [(0x7000 + 8 * i, bases[which] + 0x1000 + 0x10 * i) for i in range(32)])
                regs = s.regs_x86(bases[which] + a, spv, 0x7100) if arch == "x86" else s.regs_a64(mask, bases[which] + 0x1234, spv, 0x7100)
                s.add("newcache C")
                lines.append(s.add("trace U%d C %s %s %s 2" % (which, hx(bases[which] + a), regs, mid)))
            s.meta[lines[0]] = {"twin": lines[1], "dm": bases[1] - bases[0], "ds": 0, "arch": arch, "deps": [lines[1]],
                                "code": [bases[0], bases[0] + prog["end"] + 0x100], "nostackfp": True}
            s.tags[lines[0]] = "%s:macho:%s" % (arch, "stubs" if a < hi else "helper")
        out.append(("macho-reloc-%s-%d" % (arch, pi), s))
    return out

def judge(script, impl):
    bad = []
    for ln, m in script.meta.items():
        if m.get("abs_none"):
            if impl.get(ln) is not None and vlib.outcome(impl[ln])[:2] != ("ok", "none"):
                bad.append((ln, "the first byte of the mapped range was not unwound with the row of the function that starts there: " + impl[ln][:300]))
            continue
        if "abs_sp" in m:
            rg = vlib.regs_of(impl.get(ln)) if impl.get(ln) else None
            if rg is not None and rg[2] != m["abs_sp"]:
                bad.append((ln, "the first byte of the mapped range was not unwound with the row of the function that starts there (sp %#x expected): %s" % (m["abs_sp"], impl[ln][:300])))
            continue
        if "chain" in m:
            line = impl.get(ln)
            if line is not None and line.startswith("iter"):
                items = [x.strip() for x in line[5:].split("|")]
                exp = ["ok ra 0x%x sp=0x%x fp=0x%x" % tuple(c) for c in m["chain"]] + ["ok none"]
                if items[1:] != exp:
                    bad.append((ln, "walk at this placement differs from the true chain:\ngot : %s\ntrue: %s" % (items[1:], exp)))
            continue
        if "twin" not in m:
            continue
        a, b = impl.get(ln), impl.get(m["twin"])
        if a is None or b is None or not a.startswith("iter") or not b.startswith("iter"):
            continue
        dm, ds = m["dm"], m["ds"]
        def shift(item):
            t = item.split()
            if t[0] == "ok" and t[1] in ("ip", "ra"):
                fpv = int(t[4][3:], 16)
                if 0x7fff0000 - 0x1000000 <= fpv <= 0x7fff0000 + 0x100000:      # a pointer into the (original) stack moves with it
                    fpv = (fpv + ds) & M64
                av = int(t[2], 16)
                code = m.get("code")
                if code is None or code[0] <= av < code[1]:      # a word that is not a code address of the image does not move with it
                    av = (av + dm) & M64
                return "ok %s 0x%x sp=0x%x fp=0x%x" % (t[1], av, (int(t[3][3:], 16) + ds) & M64, fpv)
            if t[0] == "err" and t[1] == "CouldNotReadStack":
                ea = int(t[2], 16)
                if 0x7fff0000 - 0x1000000 <= ea <= 0x7fff0000 + 0x100000:      # an address of the (original) stack moves with it;
                    ea = (ea + ds) & M64                                      # a garbage pointer taken from a register does not
                return "err CouldNotReadStack 0x%x" % ea
            return item
        ia = [shift(x.strip()) for x in a[5:].split("|")]
        ib = [x.strip() for x in b[5:].split("|")]
        if m.get("must_find") and sum(1 for x in ib if x.startswith("ok ra")) < m["must_find"] - 1:
            bad.append((ln, "walk in the interleaved placement lost frames (%d expected): %s" % (m["must_find"] - 1, b[:400])))
        elif ia != ib:
            bad.append((ln, "relocated walk is not the original shifted by (load delta %#x, stack delta %#x):\noriginal : %s\nrelocated: %s" % (dm & M64, ds & M64, a[:500], b[:500])))
    return bad

def project(script, ln, line):
    return vlib.norm(line, keep_alloc=False)
