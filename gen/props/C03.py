"""C03 - PE x64 unwinding is exact in prolog, body, epilog and matches the MS procedure.
Oracles (gen/petruth.py, independent of framehop, pe-unwind-info and the Coq model):
  truth  - programs are synthesized from compiler prolog/epilog shapes with real instruction bytes;
           a machine executes calls and prologs, so the chain of return addresses and the caller's
           registers at every call are known by construction; walks (trace) and single steps
           (unwind, on a fresh and on a warmed cache) are compared with them;
  proc   - the documented unwind procedure on ARBITRARY registers and stack contents: wherever it
           succeeds, one unwind_frame call must return the same return address, rsp and
           non-volatile registers."""
import vlib, petruth
from fhgen import *
from petruth import RSP, NONVOL, PE2IDX

RULE = ("synthesized PE programs (8+ functions: push / MSVC home-space saves / frame register with dynamic allocation / "
        "mov-saves after the allocation / alloc-large both forms / bodies longer than 256 and 512 bytes / chained cold regions with and without a prolog of "
        "their own / chains of 1..34 infos / leaf functions without table entry) x call chains of depth 1..6 x every interruption point of the "
        "innermost frame (prolog, body, restore, epilog, ret/jmp) x fresh and warmed cache; plus arbitrary registers and "
        "stack contents at instruction boundaries in first-frame and caller mode; distinct = (shape, phase, next "
        "instruction) for walks, (shape, phase, mode, cached) for the differential part")
ASSUMPTIONS = ["unwind data is what compilers emit: mov-saves are listed first with the end-of-prolog offset, stack "
               "adjustments are multiples of 8, chained infos keep the frame register",
               "caller frames are not themselves inside an epilog unless the epilog mirrors the prolog",
               "stack reader is a pure partial function"]
TRUSTED_BASE = ["modelled not verified: pe-unwind-info (parsing of .pdata / UNWIND_INFO / epilog instruction bytes; "
                "its decoded values are tied to the byte view by the correspondence on every run)"]

IMAGE_BASE = 0x140000000

class LazyMem(dict):
    """stack contents produced on demand: every aligned address inside the window is readable"""
    def __init__(self, rng, lo, hi, holes=()):
        super().__init__(); self.rng, self.lo, self.hi, self.holes = rng, lo, hi, set(holes)
    def __contains__(self, a):
        if a in self.holes or not (self.lo <= a < self.hi):
            return False
        if not dict.__contains__(self, a):
            v = self.rng.u64()
            k = self.rng.below(8)
            if k == 0:
                v = 0
            elif k < 4:
                v = self.lo + 8 * self.rng.below((self.hi - self.lo) // 8)      # looks like a stack address
            dict.__setitem__(self, a, v)
        return True
    def __getitem__(self, a):
        if a not in self:
            raise KeyError(a)
        return dict.__getitem__(self, a)

def generate(rng, tier):
    out = []
    progs = 6 if tier == "quick" else 100
    for pi in range(progs):
        policy = "may" if pi % 2 == 0 else "must"
        s = Script("x86", policy)
        prog = petruth.make_program(rng, 8)
        base = 0x7ff600000000 + 0x10000 * rng.below(0x1000)
        # one program in three is registered without its text bytes: caller frames unwind the same (only
        # innermost frames need the bytes, for epilog detection)
        notext = (pi % 3 == 2)
        # unwind infos are spread over .rdata and .xdata; .xdata begins exactly where .rdata ends
        ids = sorted(prog["uinfos"])
        rdata_ids = set(ids[: rng.range(0, len(ids) - 1)]) if pi % 2 == 0 else set()
        if pi % 2 == 0:
            # ... and in these images every chained info lies in the other section than its parent (seeded change C03-16
            # looked chained infos up only in the primary info's section)
            for i in ids:
                par = prog["uinfos"][i].get("chain")
                if par is not None:
                    (rdata_ids.discard if par in rdata_ids else rdata_ids.add)(i)
        petruth_mod(s, prog, base, notext, rdata_ids)
        s.add("new U"); s.add("add U M")
        nsc = 25 if tier == "quick" else 80
        # forced interruption points: in long functions, the boundaries just past offsets 0x100, 0x200, ... (the low
        # byte of the offset is then smaller than the prolog's code offsets)
        forced = []
        for f in prog["funcs"]:
            if getattr(f, "long", False):
                bs = [b for b in petruth.boundaries(f) if b[0] == 0 and b[1] >= 0x100 and (b[1] & 0xff) < 0x28]
                forced += [(f, b) for b in bs[:: max(1, len(bs) // 6)][:6]]
        for k in range(nsc + len(forced)):
            top = 0x7ffe0000 + 0x1000 * rng.below(16)
            if rng.chance(1, 8):
                top += 0x7f0000000000
            sc = petruth.make_scenario(rng, prog, base, top, rng.range(1, 6) if k < nsc else rng.range(1, 3),
                                       inner=(forced[k - nsc] if k >= nsc else None))
            mid = "S%d" % k
            s.mem(mid, sorted(sc["mem"].items()))
            inner = sc["frames"][0]
            s.add("newcache C")
            if notext:
                # walk from the first caller frame on
                if len(sc["frames"]) < 2:
                    continue
                fr1 = sc["frames"][1]
                chain = [(fr["ra"], fr["caller_regs"][RSP], fr["caller_regs"][5]) for fr in sc["frames"][1:-1]]
                s.add("newcache D")
                for fr in sc["frames"][1:]:
                    for rep in range(2):
                        ln = s.add("unwind U D ra %s %s %s" % (hx(fr["pc"]), petruth.script_regs(fr["pc"], fr["regs_in"]), mid),
                                   tag="step-notext:%s:%s" % (fr["func"].shape, "warm" if rep else "fresh"))
                        s.meta[ln] = {"ra": fr["ra"], "caller": fr["caller_regs"], "in": fr["regs_in"]}
                continue
            chain = []
            for fr in sc["frames"][:-1]:
                chain.append((fr["ra"], fr["caller_regs"][RSP], fr["caller_regs"][5]))
            ln = s.add("trace U C %s %s %s %d" % (hx(sc["pc"]), petruth.script_regs(sc["pc"], inner["regs_in"]), mid, len(chain) + 4),
                       tag="walk:%s:%s:%s" % (inner["func"].shape, inner["phase"], inner["insn"]))
            s.meta[ln] = {"chain": chain}
            # every frame on its own, with its true registers: fresh cache, then warmed
            s.add("newcache D")
            for j, fr in enumerate(sc["frames"]):
                kind = "ip" if fr["kind"] == "first" else "ra"
                for rep in range(2):
                    ln = s.add("unwind U D %s %s %s %s" % (kind, hx(fr["pc"]), petruth.script_regs(fr["pc"], fr["regs_in"]), mid),
                               tag="step:%s:%s:%s" % (fr["func"].shape, fr.get("phase", "caller"), "warm" if rep else "fresh"))
                    s.meta[ln] = {"ra": fr["ra"], "caller": fr["caller_regs"], "in": fr["regs_in"]}
        # arbitrary registers and stack
        ndiff = 0 if notext else (60 if tier == "quick" else 300)
        s.add("newcache E")
        for k in range(ndiff):
            f = rng.choice(prog["funcs"])
            kreg, off, phase, idx = rng.choice(petruth.boundaries(f))
            reg = f.regions[kreg]
            rva = reg.begin + off
            mode = "ip" if rng.chance(2, 3) else "ra"
            if mode == "ra" and (petruth.epilog_at(prog, rva) is not None):
                mode = "ip"
            lo = 0x10000 * rng.range(1, 0xffff)
            if rng.chance(1, 10):
                lo = (1 << 64) - 0x400000 + 0x10000 * rng.below(16)       # near the top of the address space
            hi = min(lo + 0x300000, (1 << 64) - 8)
            regs = [rng.u64() for _ in range(16)]
            if rng.chance(3, 4):
                for r in range(16):
                    if rng.chance(1, 3):
                        regs[r] = lo + 8 * rng.below(0x1000)
            regs[RSP] = lo + 8 * rng.below(0x800)
            if f.fpreg is not None and rng.chance(7, 8):
                regs[f.fpreg] = lo + 8 * rng.below(0x1000) + f.fpoff
            mem = LazyMem(rng, lo, hi)
            res = petruth.ms_procedure(prog, rva, regs, mem)
            if res is not None and rng.chance(1, 10) and len(mem) > 0:
                # make one of the words the procedure needs unreadable
                hole = rng.choice(sorted(mem.keys()))
                mem = LazyMem(rng, lo, hi, holes=[hole])
                res = petruth.ms_procedure(prog, rva, regs, mem)
            mid = "D%d" % k
            s.mem(mid, sorted(dict.items(mem)))
            addr = base + rva + (1 if mode == "ra" else 0)
            # the cache is shared by all probes of the program; one probe in three is preceded by a call at the
            # same address whose registers make the stack arithmetic leave the address space
            if rng.chance(1, 3):
                hostile = list(regs)
                for r in ([RSP] + ([f.fpreg] if f.fpreg is not None else [])):
                    hostile[r] = (1 << 64) - 8 * rng.range(1, 4)
                s.add("unwind U E %s %s %s %s" % (mode, hx(addr), petruth.script_regs(addr, hostile), mid), tag="proc:hostile-predecessor")
            for rep in range(2):
                ln = s.add("unwind U E %s %s %s %s" % (mode, hx(addr), petruth.script_regs(addr, regs), mid),
                           tag="proc:%s:%s:%s:%s:%s" % (f.shape, phase, mode, "warm" if rep else "fresh", "ok" if res else "fails"))
                # the progress guards of the uncacheable path (C10) refuse a step that does not advance
                adv = res is not None and not (res[1][RSP] == regs[RSP] and res[0] == addr) and (mode == "ip" or res[1][RSP] > regs[RSP])
                s.meta[ln] = {"proc": [res[0], res[1]] if adv else None, "in": regs}
            # the Coq specification (Pe.ms_unwind) on the same input, against the oracle
            if mode == "ip" or petruth.epilog_at(prog, rva) is None:
                ln = s.add("msproc M %s %s %s" % (hx(rva), petruth.script_regs(addr, regs), mid))
                s.meta[ln] = {"spec": None if res is None else [res[0], res[1]]}
        out.append(("pe-%s-%d" % (policy, pi), s))
    # chains of unwind infos of every length up to the limit Windows itself accepts (32): the operations of all
    # infos of the chain apply, in order; one more info than that is refused (frame-pointer fallback)
    for rep in range(2 if tier == "quick" else 8):
        s = Script("x86", "may" if rep % 2 == 0 else "must")
        base = 0x7ff600000000 + 0x10000 * rng.below(0x1000)
        funcs, uinfos = [], {}
        depths = [1, 2, 3, 16, 30, 31, 32, 33, 34]
        uid = 0
        for fi, d in enumerate(depths):
            first = uid
            for k in range(d):
                last = (k == d - 1)
                # every info of the chain allocates 8 bytes more than its index, the last one pushes rbx first
                ops = [(4, ("alloc", 8 * (1 + k % 3)))] + ([(1, ("pop", 3))] if last else [])
                uinfos[uid] = dict(fpreg=None, fpoff=0, ops=ops, chain=(None if last else uid + 1), prolog=4,
                                   chain_begin=0x1000 + 0x100 * fi, chain_end=0x1000 + 0x100 * fi + 0x80)
                uid += 1
            funcs.append((0x1000 + 0x100 * fi, 0x1000 + 0x100 * fi + 0x80, first))
        text = bytes([0x90]) * (0x100 * len(depths))
        module_pe(s, "M", base, base + 0x100000, base, IMAGE_BASE, funcs, uinfos, 0x1000, text, xdata_rva=0x80000)
        s.add("new U"); s.add("add U M"); s.add("newcache C")
        lo = 0x7ffe0000
        memd = {lo + 8 * i: 0x7000000 + i for i in range(0x400 * len(depths) // 8 + 64)}
        sp_of = {}
        for fi, d in enumerate(depths):
            total = sum(8 * (1 + k % 3) for k in range(d))
            sp = lo + 0x400 * fi + 8 * rng.range(0, 8)
            sp_of[fi] = sp
            memd[sp + total] = 0x1111000 + fi            # saved rbx
            memd[sp + total + 8] = base + 0x1000 + 0x100 * rng.below(len(depths)) + 0x20
        s.mem("S", sorted(memd.items()))
        for fi, d in enumerate(depths):
            total = sum(8 * (1 + k % 3) for k in range(d))
            sp = sp_of[fi]
            for kind in ("ip", "ra"):
                pc = base + 0x1000 + 0x100 * fi + 0x40
                regs = [0] * 16
                regs[RSP] = sp; regs[5] = lo + 0x3000
                ln = s.add("unwind U C %s %s %s S" % (kind, hx(pc + (1 if kind == "ra" else 0)), petruth.script_regs(pc, regs)),
                           tag="deepchain:%d:%s" % (d, kind))
                if d <= 32:
                    exp = list(regs); exp[RSP] = sp + total + 16; exp[3] = 0x1111000 + fi
                    s.meta[ln] = {"ra": memd[sp + total + 8], "caller": exp, "in": regs}
        out.append(("deepchain-%d" % rep, s))
    return out

def petruth_mod(s, prog, base, notext=False, rdata_ids=()):
    return module_pe(s, "M", base, base + 0x400000, base, IMAGE_BASE, prog["table"], prog["uinfos"], prog["text_lo"],
                     None if notext else prog["text"], rdata_ids=rdata_ids)

def judge(script, impl):
    bad = []
    for ln, m in script.meta.items():
        line = impl.get(ln)
        if line is None:
            continue
        if "chain" in m:
            items = [x.strip() for x in line[5:].split("|")]
            exp = ["ok ra 0x%x sp=0x%x fp=0x%x" % c for c in m["chain"]] + ["ok none"]
            got = items[1:]
            if got != exp:
                k = 0
                while k < min(len(got), len(exp)) and got[k] == exp[k]:
                    k += 1
                bad.append((ln, "walk differs from the true chain at step %d: got '%s', true '%s'\nfull: %s" % (
                    k + 1, got[k] if k < len(got) else "<nothing>", exp[k] if k < len(exp) else "<end>", line[:700])))
            continue
        if "spec" in m or ("proc" in m and m["proc"] is None):
            continue
        if "proc" in m:
            ra, regs_exp = m["proc"]
            check = list(range(16))
            what = "the documented procedure"
        else:
            ra, regs_exp = m["ra"], m["caller"]
            check = NONVOL + [RSP]
            what = "the truth"
        o = vlib.outcome(line)
        if ra == 0:
            if o != ("ok", "none"):
                bad.append((ln, "%s yields a null return address (end of stack), got: %s" % (what, line[:300])))
            continue
        if o != ("ok", "some", ra):
            bad.append((ln, "%s yields return address %#x, got: %s" % (what, ra, line[:300])))
            continue
        got = vlib.regs_of(line)
        if got is None:
            bad.append((ln, "no registers in result: " + line[:200])); continue
        ip, gl = got[0], got[1:]
        for pe in check:
            if regs_exp is not None and gl[PE2IDX[pe]] != regs_exp[pe]:
                bad.append((ln, "after the step register %d (PE numbering) is %#x, %s says %#x: %s" % (
                    pe, gl[PE2IDX[pe]], what, regs_exp[pe], line[:400])))
                break
    return bad

def judge_model(script, mdl):
    """Pe.ms_unwind (the specification the theorems are about) must be the procedure the oracle implements."""
    bad = []
    for ln, m in script.meta.items():
        if "spec" not in m:
            continue
        line = mdl.get(ln)
        if line is None:
            continue
        if m["spec"] is None:
            if line != "spec none":
                bad.append((ln, "specification succeeds where the oracle procedure fails: " + line[:300]))
            continue
        ra, regs_exp = m["spec"]
        t = line.split()
        if t[:2] != ["spec", "some"] or int(t[2], 16) != ra:
            bad.append((ln, "specification yields %s, oracle procedure yields ra %#x" % (line[:200], ra))); continue
        got = vlib.regs_of(line)[1:]
        for pe in range(16):
            if got[PE2IDX[pe]] != regs_exp[pe]:
                bad.append((ln, "specification and oracle procedure differ on register %d: %#x vs %#x" % (pe, got[PE2IDX[pe]], regs_exp[pe])))
                break
    return bad

def project(script, ln, line):
    if script.lines[ln - 1].startswith("msproc"):
        return "spec"
    return vlib.norm(line, keep_alloc=True)
