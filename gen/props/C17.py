"""C17 - iter_frames is exactly the fold of unwind_frame. Oracle on the real code: the `manual`
operation of the harness performs the loop a caller would write with unwind_frame (separately fresh
cache); the iterator (inherent next and FallibleIterator::next) must print the same sequence."""
import vlib, suites
from fhgen import *

RULE = ("DWARF worlds (valid rows, garbage rows, holes in the stack) x start addresses at FDE boundaries x 1..8 "
        "next() calls beyond completion x inherent/trait next; each compared with the hand-written unwind_frame loop "
        "run on the real code; distinct = (arch, via trait?, length, final outcome class)")
ASSUMPTIONS = ["stack reader is a pure partial function"]
TRUSTED_BASE = ["modelled not verified: gimli"]

def generate(rng, tier):
    out = []
    worlds = 16 if tier == "quick" else 400
    for w in range(worlds):
        arch = "x86" if w % 2 == 0 else "a64"
        nm, s = suites.dwarf_world(rng, arch, nmods=3, nf=5, nprobes=60, policy="may" if w % 4 < 2 else "must",
                                   with_iter=True, random_rows=(w % 3 != 0))
        # tag iters by their length and outcome class lazily in judge
        out.append(("%s-%d" % (nm, w), s))
    # ground-truth frame pointer chains with extra next() calls
    for w in range(8 if tier == "quick" else 100):
        arch = "x86" if w % 2 == 0 else "a64"
        s = Script(arch)
        depth = rng.range(0, 6)
        base = 0x7000
        pairs = []
        fp = base + 0x20
        fps = []
        for d in range(depth):
            nxt = fp + 0x20 + 16 * rng.range(0, 3)
            fps.append(fp)
            pairs += [(fp, nxt if d < depth - 1 else 0), (fp + 8, 0x20000 + 0x10 * d)]
            fp = nxt
        s.mem("S", pairs)
        s.add("new U"); s.add("newcache CI"); s.add("newcache CM")
        first_fp = fps[0] if fps else 0
        regs = s.regs_x86(0x999, base, first_fp) if arch == "x86" else s.regs_a64(M64, 0x998, base, first_fp)
        # (aarch64: also with a pointer-authentication mask narrower than the pc given - the first frame is the pc AS
        # GIVEN, nothing is stripped from it; seeded change C17-11)
        variants = [(regs, (0x999, 0, 1, M64))]
        if arch == "a64":
            variants.append((s.regs_a64((1 << 48) - 1, 0x998, base, first_fp), (0xab00000000000999, M64, 1 << 63, 0x999)))
        for extra in (0, 1, 3):
          for regs, pcs in variants:
            for via in (0, 1):
                # the given instruction pointer is yielded first whatever it is: an ordinary address, 0, 1, 2^64-1
                for pc0 in pcs:
                    s.add("newcache CI"); s.add("newcache CM")
                    n = depth + 2 + extra
                    li = s.add("iter U CI %s %s S %d %d" % (hx(pc0), regs, n, via), tag="%s:fpchain:%d:%d:%d:%s" % (arch, depth, extra, via, hx(pc0)))
                    lm = s.add("manual U CM %s %s S %d" % (hx(pc0), regs, n))
                    s.meta[li] = {"twin": lm}
        out.append(("fpchain-%s-%d" % (arch, w), s))
    # very deep stacks (runaway recursion is when a profiler's user looks at the whole walk): thousands of frame
    # records; judged against the manual loop only (the extracted model is slow on walks of this length)
    for arch, depth in ((("x86", 4200), ("a64", 1100)) if tier == "quick" else (("x86", 4200), ("a64", 4200), ("x86", 70000), ("a64", 20000))):
        s = Script(arch); s.nomodel = True
        base = 0x100000
        pairs = []
        for d in range(depth):
            fp = base + 0x20 * d
            pairs += [(fp, fp + 0x20 if d < depth - 1 else 0), (fp + 8, 0x20000 + 0x10 * (d % 4000))]
        s.mem("S", pairs)
        s.add("new U")
        regs = s.regs_x86(0x999, base - 0x40, base) if arch == "x86" else s.regs_a64(M64, 0x998, base - 0x40, base)
        for via in (0, 1):
            s.add("newcache CI"); s.add("newcache CM")
            li = s.add("iter U CI 0x999 %s S %d %d" % (regs, depth + 3, via), tag="%s:deep:%d:%d" % (arch, depth, via))
            lm = s.add("manual U CM 0x999 %s S %d" % (regs, depth + 3))
            s.meta[li] = {"twin": lm}
        out.append(("deep-%s-%d" % (arch, depth), s))
    # walks that END on an uncacheable (generic) step: the registers have already been advanced
    # when the null return address is seen; further next() calls must still return Ok(None)
    for w in range(6 if tier == "quick" else 60):
        arch = "x86" if w % 2 == 0 else "a64"
        R = ARCH_REGS[arch]
        s = Script(arch, "may" if w % 4 < 2 else "must")
        gran = 8 if arch == "x86" else 16
        depth = rng.range(1, 4)
        frame = 2 * gran * rng.range(1, 3)
        # a row only the generic path can evaluate: return address at CFA-16 (x86) / CFA-24 (a64)
        slot = -16 if arch == "x86" else -24
        row = dict(cfa=("r", R["sp"], frame), fp=("s",), ra=("o", slot))
        fdes = [dict(start=0x1000, len=0x1000, rows=[(0, row)])]
        s.module_dwarf("M", 0x10000, 0x20000, 0x10000, 0, rng.choice(["hdr", "eh", "debug"]), fdes, rng)
        base = 0x7000
        pairs = {}
        sp = base
        for d in range(depth + 3):
            cfa = sp + frame
            pairs[cfa + slot] = (0x11100 + 0x10 * d) if d < depth else (0 if d == depth else 0x11500 + d)
            sp = cfa
        for a in range(base, sp + 64, 8):
            pairs.setdefault(a, 0x11800 + (a & 0xff))
        s.mem("S", sorted(pairs.items()))
        s.add("new U"); s.add("add U M")
        regs = s.regs_x86(0x11050, base, 0) if arch == "x86" else s.regs_a64(M64, 0x11060, base, 0)
        for extra in (1, 2, 4):
            for via in (0, 1):
                s.add("newcache CI"); s.add("newcache CM")
                n = depth + 2 + extra
                li = s.add("iter U CI 0x11050 %s S %d %d" % (regs, n, via), tag="%s:genericend:%d:%d:%d" % (arch, depth, extra, via))
                lm = s.add("manual U CM 0x11050 %s S %d" % (regs, n))
                s.meta[li] = {"twin": lm}
        out.append(("genericend-%s-%d" % (arch, w), s))
    # the iterator over a scripted implementation of the public Unwinder trait: whatever unwind_frame answers, a null
    # return address becomes Err(ReturnAddressIsNull), Ok(None) finishes for good, an Err is passed on and the same
    # frame is asked again by the next call
    for w in range(2 if tier == "quick" else 10):
        s = Script("x86")
        s.nomodel = True
        for k in range(30):
            answers = [rng.choice(["0x401000", "0x401000", hx(rng.u64() | 1), "0x1", "0x0", "none", "err"]) for _ in range(rng.range(0, 6))]
            n = len(answers) + rng.range(1, 4)
            via = rng.below(2)
            pc = rng.choice([0x1000, 0, 1, M64])
            ln = s.add("iterscript %s %d %d %s" % (hx(pc), n, via, " ".join(answers)), tag="scripted:%d" % via)
            s.meta[ln] = {"scripted": answers, "n": n, "pc": pc}
        out.append(("scripted-%d" % w, s))
    return out

def judge(script, impl):
    bad_scripted = []
    for ln, m in script.meta.items():
        if "scripted" not in m:
            continue
        line = impl.get(ln)
        if line is None:
            continue
        got = [x.strip() for x in line[len("iterscript "):].split("|")]
        exp = ["ok ip 0x%x" % m["pc"]]
        ans = list(m["scripted"])
        done = False
        while len(exp) < m["n"]:
            if done:
                exp.append("ok none"); continue
            a = ans.pop(0) if ans else "none"
            if a == "none":
                done = True; exp.append("ok none")
            elif a == "err":
                exp.append("err DidNotAdvance")
            elif int(a, 16) == 0:
                exp.append("err ReturnAddressIsNull")
            else:
                exp.append("ok ra 0x%x" % int(a, 16))
        if got != exp:
            bad_scripted.append((ln, "iterator over scripted unwind_frame answers %s: got %s, documented %s" % (m["scripted"], got, exp)))
    if bad_scripted or any("scripted" in m for m in script.meta.values()):
        return bad_scripted
    bad = []
    for ln, m in script.meta.items():
        if "twin" not in m:
            continue
        a, b = impl.get(ln), impl.get(m["twin"])
        na = vlib.norm(a); nb = vlib.norm(b)
        if na != nb:
            bad.append((ln, "iterator differs from the manual unwind_frame loop:\niter  : %s\nmanual: %s" % (a, b)))
            continue
        items = [x.strip() for x in (a or "")[5:].split("|")]
        if items and not items[0].startswith("ok ip"):
            bad.append((ln, "first frame is not the instruction pointer: " + str(a)))
        seen_none = False
        for it in items:
            if it in ("ok ra 0x0", "ok ip 0x0") and it.startswith("ok ra"):
                bad.append((ln, "null return address reported as a frame"))
            if seen_none and it != "ok none":
                bad.append((ln, "iterator produced something after Ok(None): " + str(a)))
            if it == "ok none":
                seen_none = True
        script.tags[ln] = script.tags.get(ln, "it") + ":%d:%s" % (len(items), items[-1].split()[0] + items[-1].split()[1] if items and len(items[-1].split()) > 1 else "x")
    return bad

def project(script, ln, line):
    return vlib.norm(line, keep_alloc=False)
