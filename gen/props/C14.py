"""C14 - corrupt or hostile unwind data never panics framehop's own code.
Two streams.
  structural (model-compared): PE modules whose tables are hostile but well-typed - function entries
      with end < begin or overlapping, unwind-info addresses that are missing or unparsable, chains
      that are cyclic, over-long or lead nowhere, text views that are shorter than their declared
      range or do not cover the function, frame registers without SET_FPREG, machine frames in the
      middle - probed at every entry boundary in both frame kinds with boundary-value registers.
      The model (whose theorems say: never an own-code panic, never a hang) must agree line by line.
  bytes (judged only): valid sections of every generated format (three DWARF presentations, PE,
      and - when C02's encoders exist - compact unwind) are damaged at byte level (bit flips,
      truncation, splicing, fills, length-field edits, random bytes) and their address ranges made
      inconsistent (below the image base, end before start, longer or shorter than the data,
      overlapping); modules are created, added and unwound through.
Judge for both: no panic whose location is under /repo/src, no hang, at creation, add and unwind."""
import re
import struct
import vlib, petruth
from fhgen import *
import suites
from props import C01, C03

RULE = ("structural PE hostility (8 kinds) x probes at entry boundaries x frame kind x boundary registers, model-compared; "
        "byte-level mutations (7 kinds) and range inconsistencies (6 kinds) of DWARF x3 and PE sections, judged; "
        "distinct = (stream, damage kind, format, outcome class)")
ASSUMPTIONS = ["a panic is attributed by the file of its location (under /repo/src = framehop's own code)",
               "a call that does not return within the watchdog time is a hang"]
TRUSTED_BASE = ["modelled not verified: gimli, pe-unwind-info, macho-unwind-info parsers (their panics are reported as 'dep' and are not C14 violations)",
                "harness panic hook and watchdog thread"]

IMAGE_BASE = 0x140000000

# ------------------------------------------------------------------ structural stream
def hostile_pe(rng, kind):
    """(funcs, uinfos, text_lo, text_bytes, text_hi, probes)"""
    nf = rng.range(2, 5)
    funcs = []
    uinfos = {}
    pos = 0x1000
    for i in range(nf):
        ln = rng.range(8, 0x60)
        b, e = pos, pos + ln
        pos = e + rng.range(0, 16)
        ops = []
        o = rng.range(4, 30)
        for _ in range(rng.range(0, 5)):
            k = rng.below(6)
            if k == 0:
                ops.append((o, ("pop", rng.choice([3, 5, 6, 7, 12, 13, 14, 15, 4, 0]))))
            elif k == 1:
                ops.append((o, ("alloc", rng.choice([8, 16, 40, 128, 136, 0x1000, 0x7fff8, 0x80000, 12, 0xfffffff8]))))
            elif k == 2:
                ops.append((o, ("setfp",)))
            elif k == 3:
                ops.append((o, ("save", rng.choice([3, 5, 6, 12]), 8 * rng.below(64))))
            elif k == 4:
                ops.append((o, ("savexmm", 16 * rng.below(32))))
            else:
                ops.append((o, ("mach", rng.chance(1, 2))))
            o = max(0, o - rng.range(0, 6))
        u = dict(fpreg=rng.choice([None, None, 5, 3, 13]), fpoff=16 * rng.below(16), ops=ops, chain=None, prolog=30)
        uinfos[i] = u
        funcs.append([b, e, i])
    text_lo = 0x1000
    text = bytearray(rng.below(256) if rng.chance(1, 3) else rng.choice([0x90, 0xC3, 0x5B, 0x48, 0x83, 0xC4, 0x20, 0x5D, 0x41, 0x5C, 0xE9, 0x8D, 0x65, 0xFF, 0x25])
                     for _ in range(pos - text_lo + 8))
    text_hi = None
    if kind == "end-before-begin":
        f = rng.choice(funcs); f[1] = f[0] - rng.range(1, 0x20)
    elif kind == "overlap":
        f = rng.choice(funcs[:-1]); f[1] = f[1] + rng.range(0x10, 0x100)
    elif kind == "uinfo-missing":
        uinfos[rng.choice(list(uinfos))]["_missing"] = True
    elif kind == "chain-cycle":
        # cycles through the function's own info (a->a, a->b->a) and cycles entered from outside (a->b->b, a->b->c->b)
        ids = list(uinfos)
        rng.shuffle(ids)
        a, b = ids[0], ids[1]
        n0 = len(uinfos)
        uinfos[n0] = dict(fpreg=None, fpoff=0, ops=[], chain=None, prolog=0)
        c = n0
        shape = rng.below(4)
        if shape == 0:
            uinfos[a]["chain"] = a
        elif shape == 1:
            uinfos[a]["chain"] = b; uinfos[b]["chain"] = a
        elif shape == 2:
            uinfos[a]["chain"] = b; uinfos[b]["chain"] = b
        else:
            uinfos[a]["chain"] = b; uinfos[b]["chain"] = c; uinfos[c]["chain"] = b
    elif kind == "chain-long":
        n0 = len(uinfos)
        m = rng.choice([31, 32, 33, 40])
        for k in range(m):
            uinfos[n0 + k] = dict(fpreg=None, fpoff=0, ops=[(0, ("alloc", 8))] if k % 7 == 0 else [], chain=(n0 + k + 1) if k + 1 < m else None, prolog=0)
        uinfos[0]["chain"] = n0
    elif kind == "text-short":
        text_hi = text_lo + len(text) + rng.range(1, 0x200)        # the range claims more than the data has
        if rng.chance(1, 2):
            text = text[: rng.range(0, len(text) - 1)]
    elif kind == "text-elsewhere":
        text_lo = rng.choice([0x1000 + rng.range(1, 0x40), 0x4000, 0x800])
    elif kind == "many-pops":
        # more registers than the compressed rule (and its fixed-capacity register list) can hold: in the unwind codes
        # and as an "epilog" in the text bytes
        n = rng.choice([8, 9, 9, 10, 12, 16])
        regs16 = [3, 5, 6, 7, 12, 13, 14, 15, 0, 1, 2, 8, 9, 10, 11, 4]
        f0 = funcs[0]
        if f0[1] - f0[0] < 0x30:
            d = 0x30 - (f0[1] - f0[0])
            f0[1] += d
            for ff in funcs[1:]:
                ff[0] += d; ff[1] += d
        uinfos[f0[2]]["ops"] = [(30, ("alloc", 32))] * rng.below(2) + [(20, ("pop", regs16[k % 16])) for k in range(n)]
        uinfos[f0[2]]["fpreg"] = None
        epi = b"".join((bytes([0x58 + r]) if r < 8 else bytes([0x41, 0x58 + r - 8])) for r in regs16[:n]) + bytes([0xC3])
        f1 = funcs[1]
        f1[1] = max(f1[1], f1[0] + len(epi) + 4)
        if len(funcs) > 2 and funcs[2][0] < f1[1]:
            d = f1[1] - funcs[2][0] + 4
            for ff in funcs[2:]:                 # keep the table sorted and free of duplicate begins
                ff[0] += d; ff[1] += d
        need = max(ff[1] for ff in funcs) - text_lo + 8
        if need > len(text):
            text += bytearray([0x90] * (need - len(text)))
        text[f1[0] - text_lo + 2: f1[0] - text_lo + 2 + len(epi)] = epi
        extra_probes = [f1[0] + 2 + k for k in range(len(epi))] + [f0[0] + 0x1f, f0[0] + 0x20, (f0[1] - 1)]
    elif kind == "plain":
        pass
    for (b, e, i) in list(funcs):
        pass
    probes = []
    for (b, e, i) in funcs:
        for a in (b, b + 1, b + rng.range(0, 0x30), (e - 1) & 0xffffffff, e & 0xffffffff, (e + 1) & 0xffffffff):
            probes.append(a & 0xffffffff)
    probes += [0, 1, 0xfff, text_lo, 0xffffffff]
    if kind == "many-pops":
        probes += extra_probes
    return funcs, uinfos, text_lo, bytes(text), text_hi, probes

def structural(rng, tier):
    out = []
    kinds = ["plain", "end-before-begin", "overlap", "uinfo-missing", "chain-cycle", "chain-long", "text-short", "text-elsewhere", "many-pops"]
    reps = 2 if tier == "quick" else 24
    for rep in range(reps):
        for kind in kinds:
            s = Script("x86", "may" if rep % 2 == 0 else "must")
            funcs, uinfos, text_lo, text, text_hi, probes = hostile_pe(rng, kind)
            base = 0x7ff600000000
            ui = {k: {kk: vv for kk, vv in v.items() if kk != "_missing"} for k, v in uinfos.items()}
            rva = module_pe(s, "M", base, base + 0x100000, base, IMAGE_BASE, [tuple(f) for f in funcs], ui, text_lo,
                            text if not (kind == "plain" and rng.chance(1, 4)) else None, text_hi=text_hi)
            if any(v.get("_missing") for v in uinfos.values()):
                # point the function at an address in no section: rewrite both views of the module line
                miss = [k for k, v in uinfos.items() if v.get("_missing")][0]
                line = s.lines[-1]
                old = hx(rva[miss])
                bogus = 0x90000 + 4 * rng.below(64)
                s.lines[-1] = retarget_uinfo(line, funcs, miss, rva[miss], bogus)
            s.add("new U"); s.add("add U M"); s.add("newcache C")
            lo = 0x10000 * rng.range(1, 0xfff)
            mem = {lo + 8 * i: rng.choice([0, lo + 8 * rng.below(0x200), rng.u64(), base + 0x1000 + rng.below(0x200)]) for i in range(0x200)}
            s.mem("S", sorted(mem.items()))
            for a in probes:
                for mode in ("ip", "ra"):
                    for _ in range(2 if tier == "quick" else 3):
                        regs = [rng.choice([rng.choice(BOUNDARY), lo + 8 * rng.below(0x1f0), rng.u64()]) for _ in range(16)]
                        regs[4] = rng.choice([lo + 8 * rng.below(0x1f0), lo + 8 * rng.below(0x1f0), rng.choice(BOUNDARY), lo + 0xff8])
                        addr = base + a + (1 if mode == "ra" else 0)
                        s.add("unwind U C %s %s %s S" % (mode, hx(addr), petruth.script_regs(addr, regs)),
                              tag="struct:%s:%s" % (kind, mode))
            out.append(("struct-%s-%d" % (kind, rep), s))
    return out

def dwarf_base(rng, tier):
    """DWARF modules whose stated base address is so high that base + relative address leaves the address space"""
    out = []
    for rep in range(6 if tier == "quick" else 48):
        arch = "x86" if rep % 2 == 0 else "a64"
        R = ARCH_REGS[arch]
        pres = ["hdr", "eh", "debug"][rep % 3]
        s = Script(arch, "may" if rep % 4 < 2 else "must")
        base_svma = rng.choice([M64, M64 - 0xfff, M64 - 0x10000 + 1, (1 << 64) - (1 << 32), (1 << 64) - (1 << 32) + 0x1000])
        nf = rng.range(1, 3)
        fdes = []
        for i in range(nf):
            st = (base_svma + 0x100 * i) & M64 if base_svma + 0x100 * i + 0x80 <= M64 else (base_svma - 0x1000 + 0x100 * i)
            fdes.append(dict(start=st, len=rng.choice([0x40, 0x80]), rows=[(0, dict(cfa=("r", R["sp"], 16), fp=("s",), ra=(("o", -8) if arch == "x86" else ("s",))))]))
        s.module_dwarf("M", 0x10000, 0x10000 + (1 << 33), 0x10000, base_svma, pres, fdes, rng,
                       eh_svma=rng.choice([0x200000, base_svma]), hdr_svma=rng.choice([0x300000, base_svma]))
        s.add("new U"); s.add("add U M"); s.add("newcache C")
        s.mem("S", [(0x7000 + 8 * i, 0x10040) for i in range(64)])
        for rel in [0, 1, 0x40, 0xff, 0x100, 0xfff, 0x1000, 0xffff, 0x10000, 0xffffffff, (M64 - base_svma) & 0xffffffff, ((M64 - base_svma) + 1) & 0xffffffff]:
            for mode in ("ip", "ra"):
                a = 0x10000 + rel + (1 if mode == "ra" else 0)
                regs = s.regs_x86(a, 0x7000, 0x7100) if arch == "x86" else s.regs_a64(M64, 0x10040, 0x7000, 0x7100)
                s.add("unwind U C %s %s %s S" % (mode, hx(a), regs), tag="struct:dwarf-base:%s:%s" % (pres, mode))
        out.append(("struct-dwarf-base-%d" % rep, s))
    return out

def dwarf_limits(rng, tier):
    """well-formed CFI whose numbers sit on the limits of i64: CFA offsets and save slots of +-2^63, 2^63-8, ... in every
    combination (the translation into rules adds them up; the generic path adds them to register values)"""
    out = []
    I64 = [(1 << 63) - 1, (1 << 63) - 8, (1 << 63) - 16, -(1 << 63), -(1 << 63) + 8, (1 << 62), -(1 << 62), 8, 16, -8, -16, 0]
    for rep in range(2 if tier == "quick" else 12):
        arch = "x86" if rep % 2 == 0 else "a64"
        R = ARCH_REGS[arch]
        s = Script(arch, "may" if rep % 4 < 2 else "must")
        rows = []
        for reg in (R["sp"], R["fp"]):
            for off in I64:
                for v in I64[:7] + [-8, -16]:
                    rows.append(dict(cfa=("r", reg, off), fp=("o", v), ra=("o", -8)))
                    rows.append(dict(cfa=("r", reg, off), fp=("s",), ra=("o", v)))
                    if rng.chance(1, 3):
                        rows.append(dict(cfa=("r", reg, off), fp=("vo", v), ra=("vo", I64[rng.below(7)])))
        rng.shuffle(rows)
        rows = rows[: (100 if tier == "quick" else 200)]
        fdes = [dict(start=0x1000 + 0x10 * i, len=0x10, rows=[(0, r)]) for i, r in enumerate(rows)]
        s.module_dwarf("M", 0x100000, 0x100000 + 0x1000 + 0x10 * len(rows) + 0x100, 0x100000, 0, ["hdr", "eh", "debug"][rep % 3], fdes, rng, shuffle=True)
        s.add("new U"); s.add("add U M"); s.add("newcache C")
        s.mem("S", [(0x7000 + 8 * i, 0x101000 + 0x10 * (i % 64) + 1) for i in range(64)])
        for i in range(len(rows)):
            for mode in ("ip", "ra"):
                a = 0x101000 + 0x10 * i + (1 if mode == "ra" else 0)
                sp, fp = rng.choice([(0x7000, 0x7100), (M64 - 7, M64 - 15), (8, 0), ((1 << 63), (1 << 63) + 8)])
                regs = s.regs_x86(a, sp, fp) if arch == "x86" else s.regs_a64(M64, 0x101041, sp, fp)
                s.add("unwind U C %s %s %s S" % (mode, hx(a), regs), tag="struct:dwarf-limits:%s:%s" % (arch, mode))
        out.append(("struct-dwarf-limits-%d" % rep, s))
    return out

def dwarf_wrapping_fdes(rng, tier):
    """FDEs whose range runs up to or past the end of the address space (start + length = 2^64, > 2^64, length
    2^64-1) next to ordinary ones, every presentation: the index is built over them at module creation, and the
    evaluator computes their end with wrapping arithmetic (they contain nothing)"""
    out = []
    for rep in range(3 if tier == "quick" else 12):
        arch = "x86" if rep % 2 == 0 else "a64"
        s = Script(arch, "may" if rep % 4 < 2 else "must")
        pres = ["eh", "debug", "hdr"][rep % 3]
        fd = [dict(start=0x1000, len=0x100, rows=[(0, suites.std_row(arch, "frameless", 2))]),
              dict(start=0x1800, len=M64, rows=[(0, suites.std_row(arch, "frameless", 3))]),
              dict(start=0x3000, len=M64 - 0x2fff, rows=[(0, suites.std_row(arch, "frameless", 4))]),       # end = 2^64 exactly
              dict(start=0x5000, len=M64 - 0x4fff - 1, rows=[(0, suites.std_row(arch, "frameless", 5))]),   # end = 2^64 - 1: fine
              dict(start=0x2000, len=0, rows=[(0, suites.std_row(arch, "frameless", 6))])]                  # empty
        fd = fd[: 3 + rep % 3] if rep % 2 else fd
        s.module_dwarf("M", 0x100000, 0x110000, 0x100000, 0, pres, fd, rng, shuffle=True)
        s.add("new U"); s.add("add U M"); s.add("newcache C")
        s.mem("S", [(0x7000 + 8 * i, 0x50000 + i) for i in range(64)])
        for rel in (0x10, 0x1010, 0x10ff, 0x1100, 0x1800, 0x1810, 0x2000, 0x2001, 0x3000, 0x3010, 0x5000, 0x5010, 0xffff):
            for mode in ("ip", "ra"):
                a = 0x100000 + rel + (1 if mode == "ra" else 0)
                regs = s.regs_x86(a, 0x7000, 0x7100) if arch == "x86" else s.regs_a64(M64, 0x101041, 0x7000, 0x7100)
                s.add("unwind U C %s %s %s S" % (mode, hx(a), regs), tag="struct:dwarf-wrap:%s:%s:%s" % (arch, pres, mode))
        out.append(("struct-dwarf-wrap-%d" % rep, s))
    return out

def dwarf_expr_loops(rng, tier):
    """well-formed CFI whose expressions do not terminate (DW_OP_skip / DW_OP_bra branching backwards: onto itself,
    over other operations, conditionally on a value that is always true) in CFA, frame-pointer and return-address
    position, and straight-line expressions around the evaluator's bound (999, 1000, 1001 operations and far beyond).
    The model has no branches: a loop is an operation the evaluator rejects - which is what a bounded evaluator
    makes of it; an unbounded one never returns (found as S22)."""
    out = []
    for rep in range(2 if tier == "quick" else 8):
        arch = "x86" if rep % 2 == 0 else "a64"
        R = ARCH_REGS[arch]
        s = Script(arch, "may" if rep % 4 < 2 else "must")
        loops = [[("skip", -3)], [("lit", 1), ("bra", -4)], [("breg", R["sp"], 8), ("skip", -3)],
                 [("breg", R["sp"], 8), ("lit", 1), ("bra", -4)], [("lit", 0), ("lit", 0), ("plus",), ("skip", -4)],
                 [("lit", 5), ("lit", 3), ("ge",), ("bra", -6)], [("breg", R["fp"], 0), ("pluc", 8), ("skip", -5)]]
        longs = [[("breg", R["sp"], 16)] + [("pluc", 1)] * n for n in (998, 999, 1000, 1001, 5000)]
        rows = []
        for ops in loops + longs:
            rows.append(dict(cfa=("e", ops), fp=("s",), ra=("o", -8)))
            rows.append(dict(cfa=("r", R["sp"], 32), fp=("e", ops), ra=("o", -8)))
            rows.append(dict(cfa=("r", R["sp"], 32), fp=("s",), ra=("e", ops)))
            rows.append(dict(cfa=("r", R["sp"], 32), fp=("ve", ops), ra=("ve", ops)))
        fdes = [dict(start=0x1000 + 0x10 * i, len=0x10, rows=[(0, r)]) for i, r in enumerate(rows)]
        s.module_dwarf("M", 0x100000, 0x100000 + 0x1000 + 0x10 * len(rows) + 0x100, 0x100000, 0, ["hdr", "eh", "debug"][rep % 3], fdes, rng, shuffle=True)
        s.add("new U"); s.add("add U M"); s.add("newcache C")
        s.mem("S", [(0x7000 + 8 * i, 0x7000 + 8 * ((i * 7) % 200)) for i in range(256)])
        for i in range(len(rows)):
            for mode in ("ip", "ra"):
                a = 0x101000 + 0x10 * i + (1 if mode == "ra" else 0)
                sp, fp = rng.choice([(0x7000, 0x7100), (0x7040, 0x7200)])
                regs = s.regs_x86(a, sp, fp) if arch == "x86" else s.regs_a64(M64, 0x101041, sp, fp)
                s.add("unwind U C %s %s %s S" % (mode, hx(a), regs),
                      tag="struct:dwarf-expr-%s:%s:%s" % ("loop" if i < 4 * len(loops) else "long", arch, mode))
        out.append(("struct-dwarf-expr-loops-%d" % rep, s))
    return out

def retarget_uinfo(line, funcs, miss, old_rva, new_rva):
    """make function entries that point at unwind info `miss` point at new_rva (both views)"""
    a_part, b_part = line.split(" B ", 1)
    toks = a_part.split(" ")
    # A view: pe <n> (begin end rva)*
    i = toks.index("pe")
    n = int(toks[i + 1])
    for k in range(n):
        if int(toks[i + 2 + 3 * k + 2], 16) == old_rva:
            toks[i + 2 + 3 * k + 2] = hx(new_rva)
    bt = b_part.split(" ")
    # B view: sections; .pdata is first: name hex - -
    j = bt.index(".pdata")
    pdata = bytearray(bytes.fromhex(bt[j + 1]))
    for k in range(len(pdata) // 12):
        if struct.unpack_from("<I", pdata, 12 * k + 8)[0] == old_rva:
            struct.pack_into("<I", pdata, 12 * k + 8, new_rva)
    bt[j + 1] = pdata.hex()
    return " ".join(toks) + " B " + " ".join(bt)

# ------------------------------------------------------------------ byte stream
MUTS = ["bitflip", "truncate", "splice", "fill00", "fillff", "lenfield", "random"]
RANGES = ["below-base", "end-before-start", "longer", "shorter", "overlap", "huge"]

def mutate_bytes(rng, data, kind):
    b = bytearray(data)
    if not b:
        return bytes(b)
    if kind == "bitflip":
        for _ in range(rng.range(1, 8)):
            i = rng.below(len(b)); b[i] ^= 1 << rng.below(8)
    elif kind == "truncate":
        b = b[: rng.below(len(b))]
    elif kind == "splice":
        i, j = rng.below(len(b)), rng.below(len(b)); n = rng.range(1, 24)
        b[j:j + n] = b[i:i + n]
    elif kind == "fill00" or kind == "fillff":
        i = rng.below(len(b)); n = rng.range(1, 32)
        for k in range(i, min(len(b), i + n)):
            b[k] = 0 if kind == "fill00" else 0xff
    elif kind == "lenfield":
        i = 4 * rng.below(max(1, len(b) // 4))
        v = rng.choice([0, 1, 0xffffffff, 0x7fffffff, 0x80000000, len(b), len(b) + 1, len(b) - 1 if len(b) else 0, 0xfffffff0])
        b[i:i + 4] = struct.pack("<I", v & 0xffffffff)[: max(0, min(4, len(b) - i))]
    else:
        b = bytearray(rng.below(256) for _ in range(rng.range(0, max(4, len(b)))))
    return bytes(b)

def damage_line(rng, line, base_svma):
    """take a `mod` line, damage its B view, blank its A view; returns (new line, damage tag)"""
    a_part, b_part = line.split(" B ", 1)
    head = a_part.split(" A ", 1)[0]
    bt = b_part.split(" ")
    n = int(bt[0])
    secs = [bt[1 + 4 * k: 5 + 4 * k] for k in range(n)]
    which = rng.below(n)
    if rng.chance(2, 3):
        kind = rng.choice(MUTS)
        name, hexd, lo, hi = secs[which]
        if hexd != "-":
            secs[which][1] = hexs(mutate_bytes(rng, bytes.fromhex(hexd), kind))
        tag = "bytes:" + kind
    else:
        kind = rng.choice(RANGES)
        cands = [k for k in range(n) if secs[k][2] != "-"]
        if cands:
            k = rng.choice(cands)
            lo, hi = int(secs[k][2], 16), int(secs[k][3], 16)
            if kind == "below-base":
                d = rng.choice([1, 0x1000, base_svma + 1 if base_svma else 1])
                lo2, hi2 = (base_svma - d) & M64, (base_svma - d + (hi - lo)) & M64
            elif kind == "end-before-start":
                lo2, hi2 = hi, lo
            elif kind == "longer":
                lo2, hi2 = lo, hi + rng.choice([1, 0x100, 0x100000])
            elif kind == "shorter":
                lo2, hi2 = lo, max(lo, hi - rng.range(1, max(1, hi - lo)))
            elif kind == "overlap":
                o = rng.choice(cands)
                lo2, hi2 = int(secs[o][2], 16), int(secs[o][3], 16)
            else:
                lo2, hi2 = rng.choice([0, lo]), rng.choice([M64, 1 << 63, (1 << 32) + lo])
            secs[k][2], secs[k][3] = hx(lo2 & M64), hx(hi2 & M64)
        tag = "range:" + kind
    flat = [str(n)] + [x for sct in secs for x in sct]
    return head + " A none B " + " ".join(flat), tag

def range_grid(rng, tier):
    """every section of a PE image and of a DWARF image x a fixed list of inconsistent address ranges (the random
    stream above draws from the same kinds; seeded change C14-6 - `range.end - base_svma` unchecked - needs a section
    that starts at or above the image base and ends below it): module creation, add and a few unwinds, one unwinder per
    variant; judged for own-code panics and hangs"""
    out = []
    srcs = [C03.generate(Rng(7), "quick")[0], C01.generate(Rng(7), "quick")[0]]
    for name, src in srcs:
        ml = [l for l in src.lines if l.startswith("mod ")][0]
        unwinds = [l for l in src.lines if l.split(" ", 1)[0] == "unwind"][:3] or [l for l in src.lines if l.split(" ", 1)[0] == "trace"][:3]
        mems = [l for l in src.lines if l.startswith("mem ")]
        a_part, b_part = ml.split(" B ", 1)
        head = a_part.split(" A ", 1)[0].split(" ")
        B = int(head[5], 16)
        bt = b_part.split(" ")
        n = int(bt[0])
        secs = [bt[1 + 4 * k: 5 + 4 * k] for k in range(n)]
        s = Script.__new__(Script)
        s.lines = [src.lines[0]]; s.tags = {}; s.meta = {}; s.arch = src.arch
        s.lines += mems
        s.add("newcache C")
        v = 0
        for k in range(n):
            if secs[k][2] == "-":
                continue
            lo, hi = int(secs[k][2], 16), int(secs[k][3], 16)
            ln_ = hi - lo
            variants = [("below-1", B - 1, B - 1 + ln_), ("below-page", B - 0x1000, B - 0x1000 + ln_), ("across-base", B + 0x1000, B - 0x10),
                        ("across-base-0", B, B - 1), ("empty-at-base", B, B), ("end-before-start", hi, lo), ("to-max", lo, M64),
                        ("from-zero", 0, hi), ("empty", lo, lo), ("max-max", M64, M64), ("wrap", M64 - 1, 0),
                        ("longer", lo, hi + 0x100000), ("shorter", lo, lo + max(0, ln_ // 2)), ("far", lo + (1 << 32), hi + (1 << 32))]
            for kind, lo2, hi2 in variants:
                if B == 0 and kind.startswith(("below", "across")):
                    continue
                sc = [list(x) for x in secs]
                sc[k][2], sc[k][3] = hx(lo2 & M64), hx(hi2 & M64)
                flat = [str(n)] + [x for sct in sc for x in sct]
                h2 = list(head); h2[1] = "M%d" % v
                tag = "%s:%s" % (secs[k][0], kind)
                s.add(" ".join(h2) + " A none B " + " ".join(flat), tag="create:range-grid:" + tag)
                s.add("new U%d" % v); s.add("add U%d M%d" % (v, v), tag="add")
                for ul in unwinds:
                    t = ul.split(" ")
                    t[1], t[2] = "U%d" % v, "C"
                    s.add(" ".join(t), tag="unwind:range-grid:" + tag)
                v += 1
        s.nomodel = True
        out.append(("range-grid-%s" % name, s))
    return out

def pe_jump_targets(rng, tier):
    """relative jumps at the pc of a PE first frame whose displacement takes the target out of every range a signed or
    an unsigned 32-bit computation can hold (the target decides whether the jump ends an epilog, S23; seeded change
    C14-21 computed it in i32). Structurally valid image, hostile text; model-compared."""
    out = []
    disp32 = [0x7ffffff0, 0x7fffffff, 0x80000000, 0x80000001, 0xffffffff, 0xfffffffb, 0, 0x100, 0xffffe7fb, 0x7fffe7fb, 0xffffef00]
    disp8 = [0x7f, 0x80, 0xfe, 0, 0x10, 0xf0]
    for rep, fn_lo in enumerate((0x1000, 0x7ffff000)):
        s = Script("x86", "may" if rep == 0 else "must")
        text = bytearray([0x90] * 0x1000)
        pcs = []
        o = 0x10
        for d in disp32:
            text[o:o + 5] = bytes([0xE9]) + struct.pack("<I", d); pcs.append(o); o += 0x10
        for d in disp8:
            text[o:o + 2] = bytes([0xEB, d]); pcs.append(o); o += 0x10
        # the same jumps at the very end of the function (the last bytes the analyser is given)
        text[0xff0:0xff5] = bytes([0xE9]) + struct.pack("<I", 0x7ffffff0); pcs.append(0xff0)
        text[0xffb:0x1000] = bytes([0xE9]) + struct.pack("<I", 0x80000000); pcs.append(0xffb)
        uinfos = {0: dict(fpreg=None, fpoff=0, ops=[(4, ("alloc", 40))], chain=None, prolog=4)}
        base = 0x7ff600000000
        module_pe(s, "MJ", base, base + fn_lo + 0x2000, base, 0x140000000, [(fn_lo, fn_lo + 0x1000, 0)], uinfos, fn_lo, bytes(text),
                  xdata_rva=0x8000 if fn_lo == 0x1000 else 0x7fff0000)
        s.add("new U"); s.add("add U MJ"); s.add("newcache C")
        s.mem("S", [(0x7000 + 8 * i, base + fn_lo + 0x20 + i) for i in range(64)])
        for pc in pcs:
            regs = s.regs_x86(base + fn_lo + pc, 0x7000 + 8 * rng.below(8), 0x7100)
            s.add("unwind U C ip %s %s S" % (hx(base + fn_lo + pc), regs), tag="pe-jump:%s" % ("rel32" if text[pc] == 0xE9 else "rel8"))
        out.append(("pe-jumps-%d" % rep, s))
    return out

def bytes_stream(rng, tier):
    out = []
    srcs = []
    for name, s in C01.generate(rng, "quick")[:4]:
        srcs.append((name, s))
    for name, s in C03.generate(rng, "quick")[:3]:
        srcs.append((name, s))
    reps = 6 if tier == "quick" else 60
    for name, src in srcs:
        mod_lines = [l for l in src.lines if l.startswith("mod ")]
        unwinds = [l for l in src.lines if l.split(" ", 1)[0] in ("unwind", "trace", "iter")]
        mems = [l for l in src.lines if l.startswith("mem ")]
        for rep in range(reps):
            s = Script.__new__(Script)
            s.lines = [src.lines[0]]; s.tags = {}; s.meta = {}; s.arch = src.arch
            tags = []
            for ml in mod_lines:
                t = ml.split(" ")
                base_svma = int(t[5], 16)
                if rng.chance(3, 4):
                    nl, tag = damage_line(rng, ml, base_svma)
                    if rng.chance(1, 3):
                        nl, tag2 = damage_line(rng, nl, base_svma); tag += "+" + tag2
                else:
                    nl, tag = ml.split(" A ", 1)[0] + " A none B " + ml.split(" B ", 1)[1], "intact"
                if rng.chance(1, 10):
                    # module mapping inconsistent with its base address
                    t2 = nl.split(" ")
                    t2[4] = hx((int(t2[2], 16) + rng.choice([1, 0x1000, 0x100000000])) & M64)
                    nl = " ".join(t2); tag += "+base-above-start"
                tags.append(tag)
                ln = s.add(nl, tag="create:" + tag.split("+")[0])
            s.lines += mems
            s.add("new U")
            for ml in mod_lines:
                s.add("add U %s" % ml.split(" ")[1], tag="add")
            s.add("newcache C")
            take = unwinds if len(unwinds) <= 40 else [rng.choice(unwinds) for _ in range(40)]
            for ul in take:
                t = ul.split(" ")
                t[1], t[2] = "U", "C"
                s.add(" ".join(t), tag="unwind:" + tags[0].split("+")[0])
            s.nomodel = True
            out.append(("bytes-%s-%d" % (name, rep), s))
    return out

def macho_ranges(rng, tier):
    """Mach-O modules (any __unwind_info bytes) whose __stubs / __stub_helper / __text ranges are inconsistent
    with the image base; judged only until C02's compact-unwind encoders exist."""
    out = []
    for rep in range(4 if tier == "quick" else 40):
        arch = "x86" if rep % 2 == 0 else "a64"
        s = Script(arch, "may" if rep % 4 < 2 else "must")
        base_svma = rng.choice([0x100000000, 0x1000, 0])
        base = 0x10000000
        def rg(kind):
            if kind == "ok":
                lo = base_svma + 0x100 * rng.range(1, 64); return lo, lo + 0x40
            if kind == "below":
                lo = (base_svma - rng.choice([1, 0x10, 0x1000])) & M64; return lo, (lo + 0x40) & M64
            if kind == "inverted":
                lo = base_svma + 0x2000; return lo, lo - 0x800
            lo = base_svma + rng.choice([1 << 32, (1 << 32) - 0x10, 1 << 40]); return lo & M64, (lo + 0x40) & M64
        kinds = [rng.choice(["ok", "below", "inverted", "far"]) for _ in range(3)]
        ui = bytes(rng.below(256) for _ in range(rng.range(0, 96))) if rng.chance(1, 2) else struct.pack("<IIIIIII", 1, 28, 0, 28, 0, 28, 0)
        text = bytes(rng.below(256) for _ in range(0x100))
        secs = [("__unwind_info", hexs(ui), "-", "-"),
                ("__stubs", "-", hx(rg(kinds[0])[0]), hx(rg(kinds[0])[1])),
                ("__stub_helper", "-", hx(rg(kinds[1])[0]), hx(rg(kinds[1])[1])),
                ("__text", hexs(text), hx(rg(kinds[2])[0]), hx(rg(kinds[2])[1]))]
        flat = [str(len(secs))] + [x for sct in secs for x in sct]
        s.add("mod M %s %s %s %s A none B %s" % (hx(base), hx(base + 0x100000), hx(base), hx(base_svma), " ".join(flat)),
              tag="create:macho:" + "/".join(kinds))
        s.add("new U"); s.add("add U M", tag="add"); s.add("newcache C")
        s.mem("S", [(0x7000 + 8 * i, rng.choice([0, base + 0x100 * rng.below(64), rng.u64()])) for i in range(64)])
        for _ in range(10):
            a = base + rng.choice([0, 1, 0x100 * rng.below(64) + rng.below(0x40), 0xfffff])
            mode = rng.choice(["ip", "ra"])
            regs = s.regs_x86(a, 0x7000 + 8 * rng.below(32), rng.choice([0, 0x7100, rng.u64()])) if arch == "x86" else \
                s.regs_a64(M64, rng.u64(), 0x7000 + 16 * rng.below(16), rng.choice([0, 0x7100]))
            s.add("unwind U C %s %s %s S" % (mode, hx(a + (1 if mode == "ra" else 0)), regs), tag="unwind:macho:" + "/".join(kinds))
        s.nomodel = True
        out.append(("macho-ranges-%d" % rep, s))
    return out

def macho_structural(rng, tier):
    """valid __unwind_info, hostile surroundings (model-compared): text bytes that end inside a function (data shorter
    than the stated range), text that starts after the first function, no text at all, missing __eh_frame for
    DWARF-deferred entries; probed at every function boundary +-1 and inside, both frame kinds"""
    import machotruth as mt
    out = []
    for rep in range(8 if tier == "quick" else 40):
        arch = "x86" if rep % 2 == 0 else "a64"
        s = Script(arch, "may" if rep % 4 < 2 else "must")
        prog = mt.make_program(rng, arch, 6)
        kind = ["text-short", "text-late", "no-text", "plain"][(rep // 2) % 4]       # every kind on both architectures
        full = prog["text"]
        if kind == "text-short":
            prog = dict(prog, text=full[: rng.range(1, len(full) - 1)])
        elif kind == "text-late":
            cut = rng.range(1, min(len(full) - 1, 0x80))
            prog = dict(prog, text=full[cut:], text_lo=prog["text_lo"] + cut)
        base = 0x100000000 + 0x10000 * rng.below(256)
        mt.module_macho(s, "M", prog, base, 0x100000000, rng, merge=rng.chance(1, 2), with_text=(kind != "no-text"))
        s.add("new U"); s.add("add U M"); s.add("newcache C")
        lo = 0x7000
        s.mem("S", [(lo + 8 * i, rng.choice([0, lo + 8 * rng.below(128), base + 0x1000 + rng.below(0x300), rng.u64()])) for i in range(128)])
        gran = 1 if arch == "x86" else 4
        for f in prog["funcs"]:
            for a in {f.start, f.start + gran, f.start + f.length - gran, f.start + f.length, f.start + gran * rng.below(max(1, f.length // gran))}:
                for mode in ("ip", "ra"):
                    addr = base + a + (1 if mode == "ra" else 0)
                    regs = (s.regs_x86(addr, lo + 8 * rng.below(100), rng.choice([0, lo + 8 * rng.below(100), rng.u64()])) if arch == "x86"
                            else s.regs_a64(M64, rng.choice([0, base + 0x1010, rng.u64()]), lo + 16 * rng.below(50), rng.choice([0, lo + 16 * rng.below(50)])))
                    s.add("unwind U C %s %s %s S" % (mode, hx(addr), regs), tag="struct:macho-%s:%s:%s" % (kind, arch, mode))
        out.append(("struct-macho-%s-%d" % (kind, rep), s))
    return out

def macho_opcodes(rng, tier):
    """structurally valid __unwind_info whose OPCODES are arbitrary (model-compared): every kind incl. the unassigned
    ones, frameless sizes and register counts / permutations out of range, frameless-indirect entries whose
    immediate in the text lies on a 16/31/32-bit boundary or outside the function, DWARF offsets into nothing;
    probed at the start, inside and at the end of every function, both frame kinds"""
    import machotruth as mt
    out = []
    IMM = [0, 8, 16, 0x7ff8, 0x8000, 0x7fff0, 0x7fff8, 0x80000, 0x80008, 0x7ffffff0, 0x7ffffff8, 0x80000000, 0x80000008,
           0x80000010, 0x80000018, 0x80000020, 0x80000028, 0xfffffff0, 0xfffffff8, 0xffffffff]
    for rep in range(4 if tier == "quick" else 40):
        arch = "x86" if rep % 2 == 0 else "a64"
        s = Script(arch, "may" if rep % 4 < 2 else "must")
        funcs = []
        pos = 0x1000
        nsys = len(IMM) if arch == "x86" else 0
        for i in range(nsys + 24):
            f = mt.Func(arch, "h%d" % i, "hostile")
            ln = rng.choice([0x10, 0x40, 0x120])
            body = bytearray(rng.below(256) for _ in range(ln)) if rng.chance(1, 2) else bytearray([0x90 if arch == "x86" else 0x1f] * ln)
            if arch == "x86":
                kind = rng.choice([0, 1, 2, 2, 3, 3, 3, 3, 4, 5, 9, 15]) if i >= nsys else 3
                cnt = rng.choice([0, 1, 2, 3, 5, 6, 6, 7])
                perm = rng.choice([0, rng.below(1024), rng.below(720), 1023])
                if kind == 3:
                    off = rng.choice([0, 3, ln - 4, ln - 3, ln, 0xff, rng.below(256)]) if i >= nsys else rng.choice([0, 4, ln - 4])
                    adj = rng.below(8) if i >= nsys else rng.choice([0, 0, 1, 7])
                    if i < nsys:
                        imm = (IMM[i] - 8 * adj) & 0xffffffff          # every boundary value as the resulting stack size
                    else:
                        imm = (rng.choice(IMM) - 8 * adj * rng.below(2) + rng.choice([0, 0, 0, 4, -8, 8])) & 0xffffffff
                    if off + 4 <= ln:
                        body[off:off + 4] = struct.pack("<I", imm)
                    if rng.chance(1, 2) or i < nsys:
                        # make sure rbp is among the saved registers: permutation that starts with rbp (register 6)
                        cnt = rng.choice([1, 2, 3, 6])
                        rl = [1, 2, 3, 4, 5][:cnt - 1]
                        rl.insert(rng.below(cnt), 6)                       # rbp at any position of the list
                        perm = mt.perm_encode(rl)
                    op = (3 << 24) | ((off & 0xff) << 16) | (adj << 13) | (cnt << 10) | (perm & 0x3ff)
                elif kind == 2:
                    op = (2 << 24) | (rng.choice([0, 1, 2, 3, 255, rng.below(256)]) << 16) | (cnt << 10) | (perm & 0x3ff)
                elif kind == 1:
                    op = (1 << 24) | (rng.below(256) << 16) | rng.below(1 << 15)
                elif kind == 4:
                    op = (4 << 24) | rng.choice([0, 1, 0x10, 0xffffff, rng.below(1 << 24)])
                else:
                    op = (kind << 24) | rng.below(1 << 24)
            else:
                kind = rng.choice([0, 1, 2, 2, 3, 4, 4, 5, 15])
                if kind == 2:
                    op = (2 << 24) | (rng.choice([0, 1, 0xfff, rng.below(4096)]) << 12)
                elif kind == 3:
                    op = (3 << 24) | rng.choice([0, 1, 0x10, 0xffffff, rng.below(1 << 24)])
                elif kind == 4:
                    op = (4 << 24) | rng.below(1 << 12)
                else:
                    op = (kind << 24) | rng.below(1 << 24)
            if rng.chance(1, 4):
                op |= rng.choice([0x80000000, 0x40000000, 0x30000000])      # start / LSDA / personality bits
            f.emit(mt.I("fill"), "body", bytes(body))
            f.opcode = op
            f.start = pos
            pos += ln + rng.choice([0, 0, 4, 0x10])
            funcs.append(f)
        text_lo = 0x1000
        text = bytearray([0xCC] * (pos - text_lo))
        for f in funcs:
            text[f.start - text_lo: f.start - text_lo + f.length] = f.text()
        prog = dict(arch=arch, funcs=funcs, text_lo=text_lo, text=bytes(text), stubs=(pos, pos + 12), helper=(pos + 12, pos + 48), end=pos + 48)
        base = 0x100000000 + 0x10000 * rng.below(256)
        mt.module_macho(s, "M", prog, base, 0x100000000, rng, merge=rng.chance(1, 2))
        s.add("new U"); s.add("add U M"); s.add("newcache C")
        lo = 0x7000
        s.mem("S", [(lo + 8 * i, rng.choice([0, lo + 8 * rng.below(128), base + 0x1000 + rng.below(0x300), rng.u64()])) for i in range(128)])
        gran = 1 if arch == "x86" else 4
        for f in funcs:
            for a in {f.start, f.start + gran, f.start + f.length - gran, f.start + gran * rng.below(max(1, f.length // gran))}:
                for mode in ("ip", "ra"):
                    addr = base + a + (1 if mode == "ra" else 0)
                    regs = (s.regs_x86(addr, lo + 8 * rng.below(100), rng.choice([0, lo + 8 * rng.below(100), rng.u64()])) if arch == "x86"
                            else s.regs_a64(M64, rng.choice([0, base + 0x1010, rng.u64()]), lo + 16 * rng.below(50), rng.choice([0, lo + 16 * rng.below(50)])))
                    s.add("unwind U C %s %s %s S" % (mode, hx(addr), regs), tag="struct:macho-opcode:%s:%s:%d" % (arch, mode, (f.opcode >> 24) & 0xf))
        out.append(("opcodes-macho-%s-%d" % (arch, rep), s))
    return out

def analysis_stream(rng, tier):
    """the instruction analysers (entered from Mach-O unwinding for first frames) on hostile text bytes: random
    bytes, shuffled and truncated prologue/epilogue instructions, lone prefixes at the end of the function, long
    runs of stack-pointer adjustments; pc anywhere inside the function bytes (the precondition macho.rs establishes)"""
    out = []
    X86 = [bytes([0x55]), bytes([0x48, 0x89, 0xE5]), bytes([0x41, 0x57]), bytes([0x41, 0x56]), bytes([0x53]), bytes([0x50]),
           bytes([0x48, 0x83, 0xEC, 0x28]), bytes([0x48, 0x81, 0xEC, 0x00, 0x10, 0x00, 0x00]), bytes([0x48, 0x83, 0xC4, 0x28]),
           bytes([0x5B]), bytes([0x41, 0x5E]), bytes([0x41, 0x5F]), bytes([0x5D]), bytes([0xC3]), bytes([0xE9, 0, 0, 0, 0]),
           bytes([0xFF, 0x25, 0, 0, 0, 0]), bytes([0x41]), bytes([0x40]), bytes([0x48]), bytes([0x4C]), bytes([0xFF]), bytes([0x0F, 0x1F])]
    A64 = [bytes.fromhex(h) for h in ["fd7bbfa9", "fd030091", "ff4300d1", "ff430091", "fd7bc1a8", "c0035fd6", "ff0f5fd6", "7f2303d5",
                                      "ff2303d5", "ffff7f91", "ffff7fd1", "f44fbea9", "f44fc2a8", "00000014", "e00f1ff8", "fd7b01a9", "1f2003d5"]]
    import machotruth as _mt
    # wide immediates: pre/post-index pairs far from sp, shifted add/sub
    A64 += [_mt.a_stp_pre(28, 27, -0x120), _mt.a_stp_pre(20, 19, -0x200), _mt.a_stp_pre(29, 30, -0x1f0), _mt.a_ldp_post(28, 27, 0x120),
            _mt.a_ldp_post(29, 30, 0x1f8), _mt.a_ldp_off(29, 30, 0x1f0), _mt.a_stp_off(29, 30, 0x1f8), _mt.a_sub_sp(0x3000), _mt.a_add_sp(0x3000),
            _mt.a_add_fp_sp(0x1f0), _mt.A_RET, _mt.A_RETAB, _mt.A_PACIBSP]
    # the authenticated tail call of arm64e and its parts, loads / stores in the other pair orders and addressing modes
    AUTH = [_mt.a_word(w) for w in (0xD50323FF, 0xCA1E07D0, 0xB6F00050, 0xD4388E20)]
    A64 += AUTH + [_mt.a_word(0x14000013), _mt.a_word(0xD28836F0), _mt.a_word(0xD71F0870), _mt.a_word(0xD61F0200),
                   _mt.a_ldp_post(30, 29, 16), _mt.a_ldp_off(30, 29, 16), _mt.a_ldp_post(30, 19, 16), _mt.a_ldp_post(29, 19, 16),
                   _mt.a_stp_pre(30, 29, -16), _mt.a_word(0xF84107FE), _mt.a_word(0xF81F0FFE), _mt.a_word(0x29BF7BFD),
                   _mt.a_word(0xA9BF7C1D), _mt.a_word(0xA9817BFD)]
    SEQ = [b"".join(AUTH) + _mt.a_word(0x14000013), b"".join(AUTH) + _mt.a_word(0xD28836F0) + _mt.a_word(0xD71F0870),
           b"".join(AUTH[:3]) + _mt.a_word(0x14000013), b"".join(AUTH) + _mt.a_word(0xD28836F0), b"".join(AUTH) + _mt.a_word(0xD28836E0) + _mt.a_word(0xD71F0870)]
    # the function's bytes end inside the sequence: after every byte of its last two instructions
    full = b"".join(AUTH) + _mt.a_word(0xD28836F0) + _mt.a_word(0xD71F0870)
    TRUNC = [full[:n] for n in range(len(full) - 8, len(full))] + [(b"".join(AUTH) + _mt.a_word(0x14000013))[:n] for n in range(13, 20)]
    for arch, pool, gran in (("x86", X86, 1), ("a64", A64, 4)):
        for rep in range(2 if tier == "quick" else 30):
            s = Script(arch, "may")
            for k in range(150 if tier == "quick" else 400):
                c = rng.below(6)
                if c == 0:
                    b = bytes(rng.below(256) for _ in range(rng.range(0, 40)))
                elif c == 1:
                    b = b"".join(rng.choice(pool) for _ in range(rng.range(0, 14)))
                elif c == 2:
                    b = b"".join(rng.choice(pool) for _ in range(rng.range(1, 10)))
                    b = b[: rng.range(0, len(b))]                                  # cut inside an instruction
                elif c == 3:
                    b = rng.choice(pool) * rng.choice([100, 129, 200, 300, 70000 // max(1, len(pool[0]))][:4])
                elif c == 4:
                    b = b"".join(rng.choice(pool) for _ in range(rng.range(1, 8))) + rng.choice(pool)[:1]
                else:
                    b = bytes([rng.choice([0x40, 0x41, 0x48, 0x4c, 0xff, 0x0f, 0xe9, 0xeb])]) * rng.range(1, 6)
                if arch == "a64" and k % 5 == 0:
                    # whole and damaged authenticated tail calls behind some epilogue instructions
                    b = b"".join(rng.choice(pool) for _ in range(rng.range(0, 3))) + rng.choice(SEQ) + b"".join(rng.choice(pool) for _ in range(rng.range(0, 2)))
                    if k % 10 == 0:
                        b = b"".join(rng.choice(pool) for _ in range(rng.range(0, 3))) + TRUNC[(k // 10) % len(TRUNC)]
                if k % 7 == 3 and len(b) >= 4:
                    # one flipped bit in one instruction word / byte: the neighbours of every recognised encoding
                    bb = bytearray(b); i = rng.below(len(bb)); bb[i] ^= 1 << rng.below(8); b = bytes(bb)
                offs = {0, len(b), (len(b) // gran // 2) * gran, rng.below(len(b) + 1)}
                if arch == "a64" and k % 5 == 0:
                    offs |= set(range(0, len(b) + 1, 4))
                for off in offs:
                    for kind in ("pro", "epi", "both"):
                        s.add("analyze %s %s %d" % (kind, hexs(b), off), tag="analysis:%s:%s:%d" % (arch, kind, c))
            if arch == "a64":
                # every byte offset (aligned or not: a pc is whatever the sampled thread's register says) into short
                # sequences that begin with or contain branches, returns and the authenticated tail call
                for seq in ([_mt.a_word(0x14000013), _mt.a_word(0xD61F0200), _mt.a_word(0xD71F0870), _mt.A_RET, _mt.A_RETAB] +
                            [x + y for x in (_mt.a_word(0x14000013), _mt.a_word(0xD61F0200)) for y in (_mt.a_add_sp(0x20), _mt.A_RET)] + SEQ[:2]):
                    for off in range(0, len(seq) + 1):          # (the hook, like the callers in macho.rs, requires off <= len)
                        for kind in ("pro", "epi", "both"):
                            s.add("analyze %s %s %d" % (kind, hexs(seq), off), tag="analysis:a64:%s:unaligned" % kind)
            if arch == "a64":
                # ... and the same instruction words at byte offsets 1, 2, 3 of the function (an unaligned pc reads them
                # as its "next instruction"; fewer than four bytes lie in front of it)
                for wd in (_mt.a_word(0x14000013), _mt.a_word(0xD61F0200), _mt.a_word(0xD71F0870), _mt.A_RET, _mt.a_add_sp(0x20), _mt.a_ldp_post(29, 30, 16)):
                    for kpad in (1, 2, 3):
                        seq = bytes([0x1f, 0x20, 0x03][:kpad]) + wd + _mt.A_RET
                        for kind in ("pro", "epi", "both"):
                            s.add("analyze %s %s %d" % (kind, hexs(seq), kpad), tag="analysis:a64:%s:unaligned-start" % kind)
            if rep == 0:
                sl = Script(arch, "may"); sl.nomodel = True      # judged only: the model driver is slow on 64 KiB runs
                # counters: more pushes / pops / stack adjustments than the accumulators can hold
                if arch == "x86":
                    longs = [(bytes([0x5B]) * 65536 + bytes([0xC3]), 0), (bytes([0x41, 0x5C]) * 65536 + bytes([0xC3]), 0),
                             (bytes([0x53]) * 65536 + bytes([0x48, 0x83, 0xEC, 0x28]), 65536),
                             (bytes([0x41, 0x54]) * 65536 + bytes([0x48, 0x83, 0xEC, 0x28]), 131072)]
                    # pops up to and across the i16 range of the rbp slot that `pop rbp` records (0x7ffe .. 0x8001 and
                    # beyond u16), each followed by pop rbp; ret
                    for n in (0x7ffe, 0x7fff, 0x8000, 0x8001, 0xfffe, 0xffff, 0x10000):
                        longs.append((bytes([0x5B]) * n + bytes([0x5D, 0xC3]), 0))
                        longs.append((bytes([0x41, 0x5C]) * (n // 2) + bytes([0x5B]) * (n - n // 2) + bytes([0x5D, 0xC3]), 0))
                else:
                    longs = [(bytes.fromhex("ffff7f91") * 200 + bytes.fromhex("c0035fd6"), 0),
                             (bytes.fromhex("ffff7fd1") * 200 + bytes.fromhex("fd7bbfa9"), 800),
                             (bytes.fromhex("ff0340d1") * 3 + bytes.fromhex("ffff7fd1") * 200, 812)]
                for b, off in longs:
                    for kind in ("pro", "epi", "both"):
                        sl.add("analyze %s %s %d" % (kind, hexs(b), off), tag="analysis:%s:%s:counter" % (arch, kind))
                out.append(("analysis-counters-%s" % arch, sl))
            out.append(("analysis-%s-%d" % (arch, rep), s))
    return out

def generate(rng, tier):
    import suites
    out = structural(rng, tier) + dwarf_base(rng, tier) + dwarf_limits(rng, tier) + dwarf_expr_loops(rng, tier) + dwarf_wrapping_fdes(rng, tier)
    # valid DWARF worlds including modules without any FDE (model-compared)
    for w in range(4 if tier == "quick" else 40):
        nm, s = suites.dwarf_world(rng, "x86" if w % 2 == 0 else "a64", nmods=3, nf=3, nprobes=30, policy="may" if w % 4 < 2 else "must")
        out.append(("world-%s-%d" % (nm, w), s))
    # frameless-immediate opcodes whose stack size is too small for the registers they list (C09's grid: the rbp slot
    # arithmetic must not underflow whatever the opcode says; seeded change C14-12)
    from props import C09 as _c09
    out += [("c09-" + n, sc) for n, sc in _c09.macho_opgrid(rng, tier)]
    for arch in ("x86", "a64"):
        nm, s = suites.empty_fde_world(rng, arch, "may" if arch == "x86" else "must")
        out.append((nm, s))
    return out + macho_structural(rng, tier) + macho_opcodes(rng, tier) + bytes_stream(rng, tier) + pe_jump_targets(rng, tier) + range_grid(rng, tier) + macho_ranges(rng, tier) + analysis_stream(rng, tier)

OWN = re.compile(r"panic own\b")
def judge(script, impl):
    bad = []
    for ln, line in impl.items():
        if OWN.search(line):
            bad.append((ln, "framehop's own code panicked on hostile data: %s   (op: %s)" % (line[:300], script.lines[ln - 1][:200])))
        elif re.search(r"(^|\| )hang\b", line):
            bad.append((ln, "the call did not return (hang) on hostile data   (op: %s)" % script.lines[ln - 1][:200]))
    return bad

def project(script, ln, line):
    if getattr(script, "nomodel", False):
        return "judged-only"
    return vlib.norm(line, keep_alloc=False)
