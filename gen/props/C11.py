"""C11 - end of stack vs truncation. Oracle: each ground-truth scenario (chains through functions
with standard compressible rows and frame-pointer records, ending in a root marker) is walked on
the full stack and then on every truncation of it (reads at or above the cut fail); the truncated
walk must be a prefix of the full walk followed by Err(CouldNotReadStack x) with x >= cut, or be
identical; the full walk ends with Ok(None) at the root marker and never yields a null frame."""
import vlib, suites
from fhgen import *

RULE = ("scenarios: call chains of depth 1..6 through frameless / frame-pointer functions, root marker = return-address-"
        "undefined row | null return address slot | null frame pointer, three presentations, both architectures; for "
        "each scenario every truncation point of the readable window (word granularity); distinct = (arch, marker, "
        "depth, cut position class)")
ASSUMPTIONS = ["steps are rule-based (rows of the scenario compress into cacheable rules)", "stack reader is a pure partial function"]
TRUSTED_BASE = ["modelled not verified: gimli"]

def generate(rng, tier):
    out = []
    reps = 8 if tier == "quick" else 150
    for rep in range(reps):
        arch = "x86" if rep % 2 == 0 else "a64"
        gran = 8 if arch == "x86" else 16
        s = Script(arch, "may" if rep % 4 < 2 else "must")
        # functions: i -> frameless with k_i; one fp function; one root function (ra undefined)
        kinds = []
        fdes = []
        R = ARCH_REGS[arch]
        for i in range(8):
            kind = rng.choice(["frameless", "frameless", "fp", "spsave", "spsave-swapped" if arch == "a64" else "spsave"])
            k = 2 + rng.below(4)
            kinds.append((kind, k))
            if kind.startswith("spsave"):
                # sp-based CFA with BOTH registers saved (a frame record that is not used as such); on aarch64 also
                # with x29 stored above x30
                fs, rs = (-8, -16) if kind == "spsave-swapped" else (-16, -8)
                row = dict(cfa=("r", R["sp"], gran * k), fp=("o", fs), ra=("o", rs))
            else:
                row = suites.std_row(arch, kind, k)
            fdes.append(dict(start=0x1000 + 0x100 * i, len=0x100, rows=[(0, row)]))
        fdes.append(dict(start=0x1000 + 0x100 * 8, len=0x100, rows=[(0, suites.std_row(arch, "root", 2))]))
        pres = ["hdr", "eh", "debug"][rep % 3]
        s.module_dwarf("M", 0x10000, 0x13000, 0x10000, 0, pres, fdes, rng, shuffle=True)
        s.add("new U"); s.add("add U M")
        for sc in range(3 if tier == "quick" else 6):
            marker = rng.choice(["undef", "nullra", "nullfp"])
            depth = rng.range(1, 6)
            base = 0x7000 + 0x1000 * sc
            mem = {}
            sp = base
            fpv = 0
            chain = []
            # build frames bottom-up: we lay out from the innermost (lowest address) outwards
            funcs = [rng.below(8) for _ in range(depth)]
            # innermost frame registers
            cur_sp = base
            frames = []
            for d, fi in enumerate(funcs):
                kind, k = kinds[fi]
                if kind == "frameless" or kind.startswith("spsave"):
                    cfa = cur_sp + gran * k
                else:
                    # frame record somewhere above sp
                    rec = cur_sp + 8 * rng.range(0, 3) * (1 if arch == "x86" else 2)
                    cfa = rec + 16
                frames.append((fi, kind, cur_sp, cfa))
                cur_sp = cfa
            # return addresses: frame d returns into function funcs[d+1] (or the root/marker)
            term = cur_sp + 48          # frame record above everything: null saved fp only matters for the nullfp marker
            start_fp = 0
            for d, (fi, kind, fsp, cfa) in enumerate(frames):
                last = (d == depth - 1)
                if not last:
                    ra = 0x11000 + 0x100 * funcs[d + 1] + 0x10 + d
                else:
                    ra = (0x11000 + 0x800 + 0x20) if marker == "undef" else (0 if marker == "nullra" else 0x11000 + 0x100 * funcs[0] + 0x40)
                mem[cfa - (16 if kind == "spsave-swapped" else 8)] = ra
                if kind == "fp" or kind.startswith("spsave"):
                    nxt_fp = term
                    for dd in range(d + 1, depth):
                        if frames[dd][1] == "fp":
                            nxt_fp = frames[dd][3] - 16; break
                    mem[cfa - (8 if kind == "spsave-swapped" else 16)] = nxt_fp
            start_fp = term
            for dd in range(depth):
                if frames[dd][1] == "fp":
                    start_fp = frames[dd][3] - 16; break
            # terminal frame record (null saved fp) above everything
            mem[term] = 0
            mem[term + 8] = 0x12f40
            top = term + 32
            for a in range(base, top, 8):
                mem.setdefault(a, 0x11000 + 0x900 + (a & 0xf8))        # filler: uncovered code addresses
            last_ra_slot = frames[-1][3] - (16 if frames[-1][1] == "spsave-swapped" else 8)
            if marker == "nullfp":
                # after the last frame the walk continues in funcs[0] again ... make it end via fp = 0:
                # the last return address points into an uncovered gap -> fp rule with the restored fp (0 on x86)
                mem[last_ra_slot] = 0x12f00
            pc = 0x11000 + 0x100 * funcs[0] + 0x20
            # the innermost function has already saved lr: the register holds something else
            lr = 0xdead0
            amask = (1 << 48) - 1
            if arch == "a64" and marker == "nullra":
                # a null return address that still carries authentication bits is null
                mem[last_ra_slot] = 0x5a << 56
            regs = s.regs_x86(pc, base, start_fp) if arch == "x86" else s.regs_a64(amask, lr, base, start_fp)
            mid = "F%d" % sc
            s.mem(mid, sorted(mem.items()))
            s.add("newcache C")
            full = s.add("trace U C %s %s %s %d" % (hx(pc), regs, mid, depth + 6), tag="%s:%s:full:%d" % (arch, marker, depth))
            s.meta[full] = {"role": "full", "marker": marker, "arch": arch}
            if arch == "x86" and marker == "nullfp":
                # x86_64: the chain ends where rbp ITSELF is null; the record at `term` (saved rbp = 0: its caller
                # merely has 0 in rbp) is a frame like any other and its return address is part of the walk
                s.meta[full]["last_ra"] = 0x12f40
            cuts = list(range(base, top + 8, 8))
            if tier == "quick" and len(cuts) > 24:
                cuts = sorted(set([cuts[0], cuts[1], cuts[-1]] + [rng.choice(cuts) for _ in range(20)]))
            for cut in cuts:
                cid = "%s_%x" % (mid, cut)
                s.mem(cid, sorted((a, v) for a, v in mem.items() if a < cut))
                s.add("newcache C")
                ln = s.add("trace U C %s %s %s %d" % (hx(pc), regs, cid, depth + 6),
                           tag="%s:%s:cut:%s" % (arch, marker, "low" if cut < base + 32 else ("high" if cut > top - 32 else "mid")))
                s.meta[ln] = {"role": "cut", "ref": full, "cut": cut, "arch": arch, "sp0": base}
        out.append(("trunc-%s-%d" % (arch, rep), s))
    # one unreadable word exactly where a compressed rule reads a saved register: slots around the stack pointer
    # (x86_64: rbp saved at [rsp-16] .. [rsp+16]; aarch64: fp/lr pairs at [sp] .. [sp+32]), first and caller frames.
    # A slot AT or above sp that cannot be read is an error naming it (only slots below sp in a first frame are
    # forgiven: half-executed epilogues)
    for arch in ("x86", "a64"):
        R = ARCH_REGS[arch]
        s = Script(arch, "may")
        rows = []
        if arch == "x86":
            for cfa_w in (2, 3, 4):
                for slot_w in (-2, -1, 0, 1, 2):               # words from rsp
                    if slot_w < cfa_w - 1:
                        rows.append((dict(cfa=("r", R["sp"], 8 * cfa_w), fp=("o", 8 * slot_w - 8 * cfa_w), ra=("o", -8)), [8 * slot_w]))
        else:
            for cfa_u in (1, 2, 3):
                for slot_w in (0, 2):
                    if slot_w + 2 <= 2 * cfa_u:
                        rows.append((dict(cfa=("r", R["sp"], 16 * cfa_u), fp=("o", 8 * slot_w - 16 * cfa_u), ra=("o", 8 * slot_w + 8 - 16 * cfa_u)),
                                     [8 * slot_w, 8 * slot_w + 8]))
        fdes = [dict(start=0x1000 + 0x10 * i, len=0x10, rows=[(0, r)]) for i, (r, _) in enumerate(rows)]
        s.module_dwarf("M", 0x100000, 0x102000, 0x100000, 0, "eh", fdes, rng)
        s.add("new U"); s.add("add U M")
        sp0 = 0x7100
        full = {sp0 - 0x40 + 8 * i: 0x101000 + 0x10 * (i % len(rows)) + 4 for i in range(32)}
        for i, (r, slots) in enumerate(rows):
            for off in slots:
                for mode in ("ip", "ra"):
                    mid = "H%d_%d_%s" % (i, off & 0xffff, mode)
                    hole = sp0 + off
                    s.mem(mid, sorted((a, v) for a, v in full.items() if a != hole))
                    a = 0x101000 + 0x10 * i + 4 + (1 if mode == "ra" else 0)
                    regs = s.regs_x86(a, sp0, 0x7180) if arch == "x86" else s.regs_a64(M64, 0x101234, sp0, 0x7180)
                    s.add("newcache C")
                    ln = s.add("unwind U C %s %s %s %s" % (mode, hx(a), regs, mid), tag="%s:hole:%s:%d" % (arch, mode, off))
                    if not (mode == "ip" and off < 0):
                        s.meta[ln] = {"role": "hole", "hole": hole}
        out.append(("holes-%s" % arch, s))
    # a first frame whose return address is null although nothing has to be read for it: the thread's entry function
    # stopped at its first instruction, in a stub or in a leaf with lr = 0 (aarch64; also null only after the
    # authentication bits are stripped), and on x86_64 a null word on top of the stack: the end of the stack, not a frame
    import machotruth as mt
    for arch in ("a64", "x86"):
        s = Script(arch, "may")
        prog = mt.make_program(rng, arch, 4)
        mbase = 0x100000000 + 0x10000 * rng.below(256)
        mt.module_macho(s, "M", prog, mbase, 0x100000000, rng)
        s.add("new U"); s.add("add U M")
        s.mem("Z", [(0x7ffe0000 + 8 * i, 0) for i in range(8)])
        pts = [f.start for f in prog["funcs"]] + [prog["stubs"][0], prog["stubs"][0] + 4, prog["helper"][0]]
        pts += [f.start + off for f in prog["funcs"] if f.shape == "null-leaf" for (off, insn, ph) in f.insns]
        for a in pts:
            for lrv in ((0, 0x5a << 56) if arch == "a64" else (0,)):
                regs = s.regs_a64((1 << 48) - 1, lrv, 0x7ffe0000, 0x7ffe0020) if arch == "a64" else s.regs_x86(mbase + a, 0x7ffe0000, 0x7ffe0020)
                s.add("newcache C")
                ln = s.add("unwind U C ip %s %s Z" % (hx(mbase + a), regs), tag="%s:nullfirst:%s" % (arch, "pac" if lrv else "zero"))
                s.meta[ln] = {"role": "nullfirst"}
                ln = s.add("trace U C %s %s Z 4" % (hx(mbase + a), regs), tag="%s:nullfirst-iter" % arch)
                s.meta[ln] = {"role": "full", "marker": "nullra", "arch": arch}
        out.append(("nullfirst-%s" % arch, s))
    # PE: functions whose unwind codes compress into the pop rule (pushes and one allocation). Every cut of the stack:
    # the rule reads one word per popped register and then the return address, and must name the word it could not read
    import petruth
    for w in range(2 if tier == "quick" else 20):
        s = Script("x86", "may" if w % 2 == 0 else "must")
        prog = petruth.make_program(rng, only=[("push", dict(npush=k)) for k in (1, 2, 3, 4, 2, 3)])
        pbase = 0x7ff600000000 + 0x10000 * rng.below(256)
        module_pe(s, "M", pbase, pbase + 0x400000, pbase, 0x140000000, prog["table"], prog["uinfos"], prog["text_lo"], prog["text"])
        s.add("new U"); s.add("add U M")
        for sc_i in range(3 if tier == "quick" else 6):
            top = 0x7ffe0000 + 0x1000 * rng.below(8)
            fi = rng.choice(prog["funcs"])
            bi = rng.choice([b for b in petruth.boundaries(fi) if b[2] == "body"])
            sc = petruth.make_scenario(rng, prog, pbase, top, rng.range(2, 5), inner=(fi, bi))
            fr = sc["frames"]
            # the innermost frame is stopped in its body: all its unwind codes apply and no epilog is in sight
            f1 = fr[0]
            mem = dict(sc["mem"])
            lo = min(mem); hi = max(mem) + 8
            mid = "P%d" % sc_i
            s.mem(mid, sorted(mem.items()))
            regs = petruth.script_regs(f1["pc"], f1["regs_in"])
            # first step as a return address: use the iterator-free trace from a caller frame by unwinding it manually first
            s.add("newcache C")
            full = s.add("trace U C %s %s %s %d" % (hx(f1["pc"] - 0), regs, mid, len(fr) + 4), tag="x86:pe-pops:full")
            s.meta[full] = {"role": "full", "marker": "null return address (PE pop rules)", "arch": "x86"}
            cuts = list(range(f1["regs_in"][4] & ~7, hi + 8, 8))
            if tier == "quick" and len(cuts) > 24:
                cuts = sorted(set([cuts[0], cuts[1], cuts[-1]] + [rng.choice(cuts) for _ in range(22)]))
            for cut in cuts:
                cid = "%s_%x" % (mid, cut)
                s.mem(cid, sorted((a, v) for a, v in mem.items() if a < cut))
                s.add("newcache C")
                ln = s.add("trace U C %s %s %s %d" % (hx(f1["pc"]), regs, cid, len(fr) + 4), tag="x86:pe-pops:cut")
                s.meta[ln] = {"role": "cut", "ref": full, "cut": cut, "arch": "x86", "sp0": f1["regs_in"][4]}
        out.append(("pe-pops-%d" % w, s))
    # a null return address ends the stack in a caller frame of ANY size - also a frame of size zero, where the same
    # step with a non-null word would be refused as "did not advance" (the null test comes first; seeded change C11-12
    # swapped the two on aarch64). Rows with CFA = sp + 0 / + 16 and the return address at or above the CFA.
    for arch in ("x86", "a64"):
        R = ARCH_REGS[arch]
        s = Script(arch, "may")
        rows = []
        for cfa_off in ((8, 16) if arch == "x86" else (0, 16)):
            for slot in ((-8,) if arch == "x86" else (8, 0, -8, 16)):
                if arch == "a64" and cfa_off + slot < 0:
                    continue
                rows.append(dict(cfa=("r", R["sp"], cfa_off), fp=("s",), ra=("o", slot)))
        fdes = [dict(start=0x1000 + 0x10 * i, len=0x10, rows=[(0, r)]) for i, r in enumerate(rows)]
        s.module_dwarf("M", 0x100000, 0x102000, 0x100000, 0, "eh", fdes, rng)
        s.add("new U"); s.add("add U M")
        sp0 = 0x7100
        for i, r in enumerate(rows):
            slot_a = sp0 + r["cfa"][2] + r["ra"][1]
            for val, role in ((0, "nullcaller"), (0x101000 + 0x10 * i + 5, None)):
                mid = "N%d_%d" % (i, 1 if val else 0)
                s.mem(mid, [(sp0 - 0x20 + 8 * j, 0x101000 + 4 + 0x10 * (j % len(rows))) for j in range(16) if sp0 - 0x20 + 8 * j != slot_a] + [(slot_a, val)])
                a = 0x101000 + 0x10 * i + 4
                regs = s.regs_x86(a, sp0, 0x7180) if arch == "x86" else s.regs_a64(M64, 0x101234, sp0, 0x7180)
                s.add("newcache C")
                ln = s.add("unwind U C ra %s %s %s" % (hx(a + 1), regs, mid), tag="%s:nullcaller:%d:%d:%s" % (arch, r["cfa"][2], r["ra"][1], "null" if not val else "word"))
                if role:
                    s.meta[ln] = {"role": role}
        out.append(("nullcaller-%s" % arch, s))
    # a null return address is a root marker on the generic (uncacheable) path too
    for w in range(6 if tier == "quick" else 60):
        arch = "x86" if w % 2 == 0 else "a64"
        R = ARCH_REGS[arch]
        s = Script(arch, "may" if w % 4 < 2 else "must")
        gran = 8 if arch == "x86" else 16
        depth = rng.range(1, 4)
        frame = 2 * gran * rng.range(1, 3)
        slot = -16 if arch == "x86" else -24
        row = dict(cfa=("r", R["sp"], frame), fp=("s",), ra=("o", slot))
        fdes = [dict(start=0x1000, len=0x1000, rows=[(0, row)])]
        s.module_dwarf("M", 0x10000, 0x20000, 0x10000, 0, rng.choice(["hdr", "eh", "debug"]), fdes, rng)
        base = 0x7000
        pairs = {}
        sp = base
        for d in range(depth + 3):
            cfa = sp + frame
            pairs[cfa + slot] = (0x11100 + 0x10 * d) if d < depth else (0 if d == depth else 0x11500 + d)
            sp = cfa
        for a in range(base, sp + 64, 8):
            pairs.setdefault(a, 0x11800 + (a & 0xff))
        s.mem("S", sorted(pairs.items()))
        s.add("new U"); s.add("add U M"); s.add("newcache C")
        regs = s.regs_x86(0x11050, base, 0) if arch == "x86" else s.regs_a64(M64, 0x11060, base, 0)
        full = s.add("trace U C 0x11050 %s S %d" % (regs, depth + 6), tag="%s:nullra-generic:full:%d" % (arch, depth))
        s.meta[full] = {"role": "full", "marker": "null return address on the generic path", "arch": arch}
        # the same cache walks the same code again, over a stack whose null marker lies two frames deeper: a root marker
        # seen once at a call site says nothing about the next walk (seeded change C11-11 cached the end of the stack)
        pairs2 = dict(pairs)
        sp = base
        for d in range(depth + 3):
            cfa = sp + frame
            pairs2[cfa + slot] = (0x11100 + 0x10 * d) if d < depth + 2 else 0
            sp = cfa
        s.mem("S2", sorted(pairs2.items()))
        again = s.add("trace U C 0x11050 %s S2 %d" % (regs, depth + 8), tag="%s:nullra-generic:again:%d" % (arch, depth))
        s.meta[again] = {"role": "full", "marker": "null return address on the generic path (second walk, same cache)", "arch": arch,
                         "last_ra": 0x11100 + 0x10 * (depth + 1)}
        out.append(("genericnull-%s-%d" % (arch, w), s))
    # "return address undefined" ends the stack whatever the row says about the CFA and the frame pointer
    for w in range(2 if tier == "quick" else 12):
        arch = "x86" if w % 2 == 0 else "a64"
        R = ARCH_REGS[arch]
        s = Script(arch, "may" if w % 4 < 2 else "must")
        gran = 8 if arch == "x86" else 16
        fprules = [("u",), ("s",), ("o", -16), ("o", -24), ("vo", -16), ("reg", 3), ("reg", R["sp"]),
                   ("e", [("breg", R["sp"], 8)]), ("ve", [("breg", R["fp"], 16)])]
        cfas = [("r", R["sp"], 2 * gran), ("r", R["fp"], 16), ("r", R["fp"], 32), ("r", R["sp"], 4),
                ("e", [("breg", R["sp"], 16)])]
        roots = [(c, f) for c in cfas for f in fprules]
        fdes = [dict(start=0x1000, len=0x100, rows=[(0, suites.std_row(arch, "frameless", 2))])]
        for i, (c, f) in enumerate(roots):
            fdes.append(dict(start=0x2000 + 0x10 * i, len=0x10, rows=[(0, dict(cfa=c, fp=f, ra=("u",)))]))
        s.module_dwarf("M", 0x10000, 0x20000, 0x10000, 0, ["hdr", "eh", "debug"][w % 3], fdes, rng, shuffle=True)
        base = 0x7000
        s.mem("S", [(base + 8 * i, 0x11800 + i) for i in range(64)])
        s.add("new U"); s.add("add U M")
        for i, (c, f) in enumerate(roots):
            ra = 0x12000 + 0x10 * i + 5
            # (a) stopped in the root function itself, (b) in a frameless callee that returns into it
            s.mem("S%d" % i, [(base + 8 * j, ra if j == (1 if arch == "x86" else 3) else 0x11800 + j) for j in range(64)])
            for first in (True, False):
                s.add("newcache C")
                if first:
                    regs = s.regs_x86(ra, base + 64, base + 128) if arch == "x86" else s.regs_a64(M64, 0x11060, base + 64, base + 128)
                    pc = ra
                else:
                    regs = s.regs_x86(0x11050, base, base + 128) if arch == "x86" else s.regs_a64(M64, ra, base, base + 128)
                    pc = 0x11050
                ln = s.add("trace U C %s %s S%d 6" % (hx(pc), regs, i),
                           tag="%s:rootrow:%s:%s:%s" % (arch, c[0] + str(c[1])[:2], f[0], "first" if first else "caller"))
                s.meta[ln] = {"role": "full", "marker": "return address undefined (CFA %s, fp rule %s)" % (c, f), "arch": arch,
                              "rootrow": [list(c[:1]) + ([c[1], c[2]] if c[0] == "r" else []), f[0], first]}
        if arch == "a64":
            # the contrast: lr declared SAME VALUE is not a root marker. A caller frame described that way cannot be
            # unwound (its return address would be the one just used), but the stack does not end there: Err, not Ok(None)
            s.add("newcache C")
            nfd = len(roots)
            for j, (c, f) in enumerate([(cc, ff) for cc in cfas[:1] + cfas[3:4] for ff in (("s",), ("u",), ("o", -16))]):
                pass
            s2 = Script(arch, s.lines[0].split("policy=")[1].split()[0])
            same = [(cc, ff) for cc in (("r", R["sp"], 2 * gran), ("r", R["sp"], 0), ("r", R["sp"], 4 * gran)) for ff in (("s",), ("u",))]
            fd2 = [dict(start=0x1000, len=0x100, rows=[(0, suites.std_row(arch, "frameless", 2))])]
            for i, (c, f) in enumerate(same):
                fd2.append(dict(start=0x2000 + 0x10 * i, len=0x10, rows=[(0, dict(cfa=c, fp=f, ra=("s",)))]))
            s2.module_dwarf("M", 0x10000, 0x20000, 0x10000, 0, ["hdr", "eh", "debug"][w % 3], fd2, rng, shuffle=True)
            s2.add("new U"); s2.add("add U M")
            for i, (c, f) in enumerate(same):
                ra = 0x12000 + 0x10 * i + 5
                s2.mem("S%d" % i, [(base + 8 * j, ra if j == 3 else 0x11800 + j) for j in range(64)])
                s2.add("newcache C")
                ln = s2.add("trace U C 0x11050 %s S%d 6" % (s2.regs_a64(M64, 0x11060, base, base + 128), i), tag="a64:samevalue:%d:%s" % (c[2], f[0]))
                s2.meta[ln] = {"role": "notroot", "arch": arch}
            out.append(("samevalue-%s-%d" % (arch, w), s2))
        out.append(("rootrows-%s-%d" % (arch, w), s))
    return out

def items_of(line):
    return [x.strip() for x in (line or "")[5:].split("|")]

def judge(script, impl):
    bad = []
    for ln, m in script.meta.items():
        line = impl.get(ln)
        if line is not None and m.get("role") == "nullfirst":
            o = vlib.outcome(line)
            if o[:2] == ("ok", "some") and o[2] == 0:
                bad.append((ln, "a null return address was reported as the caller's address instead of ending the stack: " + line[:200]))
            continue
        if line is not None and m.get("role") == "nullcaller":
            if vlib.outcome(line)[:2] != ("ok", "none"):
                bad.append((ln, "a null return address in a caller frame is the end of the stack (Ok(None)), got: " + line[:200]))
            continue
        if line is not None and m.get("role") == "hole":
            o = vlib.outcome(line)
            if o[:2] != ("err", "CouldNotReadStack") or o[2] != m["hole"]:
                bad.append((ln, "the word at %#x, which the rule reads, is unreadable: expected Err(CouldNotReadStack(%#x)), got %s" % (m["hole"], m["hole"], line[:200])))
            continue
        if line is None or not line.startswith("iter"):
            continue
        its = items_of(line)
        for it in its:
            if it.startswith("ok ra 0x0 "):
                bad.append((ln, "null address reported as a frame: " + line[:200]))
        if m["role"] == "notroot":
            if its[-1] == "ok none":
                bad.append((ln, "a caller frame whose row keeps lr (same value) was taken for the end of the stack: " + line[:300]))
            continue
        if m["role"] == "full":
            if its[-1] != "ok none":
                # scenarios are complete chains: they must end at the root marker
                bad.append((ln, "walk over the complete stack did not complete with Ok(None) at the %s marker: %s" % (m["marker"], line[:400])))
            elif "last_ra" in m and (len(its) < 2 or not its[-2].startswith("ok ra 0x%x " % m["last_ra"])):
                bad.append((ln, "walk completed with Ok(None) before the root marker: the frame returning to %#x (frame record with a "
                                "null saved rbp, rbp itself not null) is missing: %s" % (m["last_ra"], line[:400])))
            continue
        ref = items_of(impl.get(m["ref"]))
        cut = m["cut"]
        if its == ref:
            continue
        # must be: a strict prefix of the full walk's frames, then Err(CouldNotReadStack x), x >= cut
        body, last = its[:-1], its[-1]
        if body != ref[:len(body)] or len(body) >= len(ref):
            bad.append((ln, "truncated walk (cut %#x) is not a prefix of the full walk:\ncut : %s\nfull: %s" % (cut, " | ".join(its), " | ".join(ref))))
            continue
        t = last.split()
        if not (t[0] == "err" and t[1] == "CouldNotReadStack" and int(t[2], 16) >= cut):
            bad.append((ln, "truncated walk (cut %#x) must end with Err naming an unreadable address >= cut, got '%s' (full walk: %s)" % (cut, last, " | ".join(ref))))
    return bad

def k_s14(script, ln, line, desc):
    """aarch64/dwarf.rs: 'lr undefined' ends the stack only for caller frames whose row compresses into
    OffsetSpIfFirstFrameOtherwiseStackEndsHere (CFA = sp + 16k, fp same/undefined); first frames read it as
    same-value (deliberate) and every other row fails on the generic path (frame-pointer fallback)."""
    m = script.meta.get(ln, {})
    rr = m.get("rootrow")
    if not rr or m.get("arch") != "a64":
        return False
    c, f, first = rr
    compresses = c[0] == "r" and c[1] == 31 and c[2] % 16 == 0 and f in ("u", "s")
    return first or not compresses

KNOWN = {"S14_a64_undefined_rules": k_s14}

def project(script, ln, line):
    return vlib.norm(line, keep_alloc=False)
