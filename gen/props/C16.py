"""C16 - aarch64 pointer authentication bits are stripped from everything reported."""
import vlib, suites
from fhgen import *

RULE = ("all 65 leading-zero classes (+-1 neighbours) of from_max_known_address; exec hook over every aarch64 rule "
        "with signed return addresses in memory and 8 masks; API-level DWARF worlds (cached rule, fallback, generic "
        "path) with masks; distinct = (path/rule constructor, first/caller, mask class)")
ASSUMPTIONS = ["stack reader is a pure partial function"]
TRUSTED_BASE = ["modelled not verified: gimli"]

def generate(rng, tier):
    out = []
    s = Script("a64")
    vals = set([0, 1, M64])
    for b in range(64):
        for d in (-1, 0, 1):
            v = (1 << b) + d
            if 0 <= v <= M64:
                vals.add(v)
    for v in sorted(vals):
        ln = s.add("mask max %s" % hx(v), tag="mask:%d" % v.bit_length())
        s.meta[ln] = {"max": v}
    s.add("mask 2440"); s.add("mask nostrip")
    for i in range(200):
        # (every mask of the list at least once - the all-zero mask of `from_max_known_address(0)` included - then random)
        k = suites.MASKS[i] if i < len(suites.MASKS) else rng.choice(suites.MASKS + [0])
        ln = s.add("aregs %s" % s.regs_a64(k, rng.u64(), rng.u64(), rng.u64()), tag="aregs")
        s.meta[ln] = {"mask": k}
    for i in range(8):
        k = 0
        ln = s.add("aregs %s" % s.regs_a64(k, rng.u64(), rng.u64(), rng.u64()), tag="aregs:zero")
        s.meta[ln] = {"mask": k}
    out.append(("masks", s))
    n = 6000 if tier == "quick" else 120000
    chunks = 1 if tier == "quick" else 4
    for c in range(chunks):
        nm, sc = suites.exec_suite(rng, "a64", n // chunks)
        out.append(("%s-%d" % (nm, c), sc))
    worlds = 10 if tier == "quick" else 200
    for w in range(worlds):
        nm, sc = suites.dwarf_world(rng, "a64", nmods=3, nf=5, nprobes=80, policy="may" if w % 2 else "must")
        out.append(("%s-%d" % (nm, w), sc))
    # a stack whose saved return addresses carry authentication bits (the null that ends it included: a root frame
    # compiled with pacibsp signs a null lr) unwinds to the same frames as the unsigned stack, on every path
    for w in range(8 if tier == "quick" else 80):
        s = Script("a64", "may" if w % 2 else "must")
        path = ["rule", "fp", "generic", "nomodule"][w % 4]
        mask = [(1 << 48) - 1, (1 << 40) - 1, (1 << 52) - 1, (1 << 47) - 1][(w // 4) % 4]
        sig = (0x5a5a5a5a5a5a5a5a | (1 << 63)) & ~mask & M64
        frame = 32 if path != "generic" else 40
        row = {"rule": dict(cfa=("r", 31, 32), fp=("s",), ra=("o", -8)),
               "fp": dict(cfa=("r", 29, 16), fp=("o", -16), ra=("o", -8)),
               "generic": dict(cfa=("r", 31, 40), fp=("s",), ra=("o", -8)),
               "nomodule": None}[path]
        if row:
            s.module_dwarf("M", 0x10000, 0x20000, 0x10000, 0, ["hdr", "eh", "debug"][w % 3],
                           [dict(start=0x1000, len=0x1000, rows=[(0, row)])], rng)
        s.add("new U")
        if row:
            s.add("add U M")
        depth = rng.range(1, 5)
        base = 0x7000
        plain, signed = {}, {}
        for a in range(base, base + 0x400, 8):
            plain[a] = signed[a] = 0x11800 + (a & 0xff)
        ras = [0x11100 + 0x10 * d for d in range(depth)] + [0]
        if path in ("fp", "nomodule"):
            fp = base + 0x40
            for d, ra in enumerate(ras):
                plain[fp] = signed[fp] = fp + 0x20
                plain[fp + 8] = ra; signed[fp + 8] = ra | sig
                fp += 0x20
            regs = lambda lr: s.regs_a64(mask, lr, base, base + 0x40)
        else:
            sp = base
            for d, ra in enumerate(ras):
                plain[sp + frame - 8] = ra; signed[sp + frame - 8] = ra | sig
                sp += frame
            regs = lambda lr: s.regs_a64(mask, lr, base, 0)
        s.mem("P", sorted(plain.items())); s.mem("Q", sorted(signed.items()))
        lines = []
        for mid, lr in (("P", 0x4444), ("Q", 0x4444 | sig)):
            s.add("newcache C")
            lines.append(s.add("trace U C 0x11050 %s %s %d" % (regs(lr), mid, depth + 4), tag="twin:%s:%d" % (path, mask.bit_length())))
        s.meta[lines[0]] = {"signed_twin": lines[1], "depth": depth, "deps": [lines[1]]}
        out.append(("signedtwin-%s-%d" % (path, w), s))
    return out

def judge(script, impl):
    bad = []
    for ln, m in script.meta.items():
        if "signed_twin" in m and impl.get(ln) and impl.get(m["signed_twin"]):
            a, b = impl[ln], impl[m["signed_twin"]]
            ia = [x.strip() for x in a[5:].split("|")]; ib = [x.strip() for x in b[5:].split("|")]
            # the first item shows the registers as given (lr signed or not): compared from the first step on
            if ia[1:] != ib[1:]:
                bad.append((ln, "the stack with signed return addresses does not unwind like the unsigned one:\nunsigned: %s\nsigned  : %s" % (a[:400], b[:400])))
            elif ia[-1] != "ok none" or sum(1 for x in ia if x.startswith("ok ra")) != m["depth"]:
                bad.append((ln, "the unsigned stack was not walked to its null end (%d frames): %s" % (m["depth"], a[:400])))
    for ln, line in sorted(impl.items()):
        toks = script.lines[ln - 1].split()
        op = toks[0]
        if op == "mask" and toks[1] == "max":
            a = script.meta[ln]["max"]
            if not line.startswith("mask "):
                bad.append((ln, "mask constructor did not return: " + line)); continue
            k = int(line.split()[1], 16)
            # preserves every address up to a  <=>  k is all-ones up to a's highest bit
            if (a & k) != a or any(((x & k) != x) for x in (a >> 1, a - 1 if a else 0, 0)):
                bad.append((ln, "mask 0x%x does not preserve addresses up to 0x%x" % (k, a)))
        elif op == "aregs":
            rg = [int(x, 16) for x in line.split()[1:]]
            k = script.meta.get(ln, {}).get("mask", rg[0])         # the mask that was ASKED for, not the one reported back
            if rg[0] != k:
                bad.append((ln, "new_with_ptr_auth_mask(0x%x, ..) built a register set with mask 0x%x: %s" % (k, rg[0], line)))
            elif rg[1] & ~k & M64:
                bad.append((ln, "new_with_ptr_auth_mask left bits outside the mask in lr: " + line))
        elif op in ("exec", "unwind"):
            o = vlib.outcome(line)
            if o[0] == "panic":
                continue
            rg = vlib.regs_of(line)
            if rg is None:
                continue
            inmask = int(toks[toks.index("exec") + 1], 16) if False else None
            mask = rg[0]
            if o[0] == "ok" and o[1] == "some":
                if o[2] == 0:
                    bad.append((ln, "a null return address (authentication bits only) was reported as a frame instead of ending the stack: " + line))
                if o[2] & ~mask & M64:
                    bad.append((ln, "reported return address has bits outside the mask: " + line))
                if rg[1] != o[2]:
                    bad.append((ln, "lr left in the register set differs from the reported address: " + line))
            if rg[1] & ~mask & M64:
                bad.append((ln, "lr left in the register set has bits outside the mask: " + line))
    return bad

def project(script, ln, line):
    return vlib.norm(line, keep_alloc=False)
