"""C16 - aarch64 pointer authentication bits are stripped from everything reported."""
import vlib, suites
from fhgen import *

RULE = ("all 65 leading-zero classes (+-1 neighbours) of from_max_known_address; exec hook over every aarch64 rule "
        "with signed return addresses in memory and 8 masks; API-level DWARF worlds (cached rule, fallback, generic "
        "path) with masks; distinct = (path/rule constructor, first/caller, mask class)")
ASSUMPTIONS = ["stack reader is a pure partial function"]
TRUSTED_BASE = ["modelled not verified: gimli"]

def generate(rng, tier):
    out = []
    s = Script("a64")
    vals = set([0, 1, M64])
    for b in range(64):
        for d in (-1, 0, 1):
            v = (1 << b) + d
            if 0 <= v <= M64:
                vals.add(v)
    for v in sorted(vals):
        ln = s.add("mask max %s" % hx(v), tag="mask:%d" % v.bit_length())
        s.meta[ln] = {"max": v}
    s.add("mask 2440"); s.add("mask nostrip")
    for _ in range(200):
        k = rng.choice(suites.MASKS)
        ln = s.add("aregs %s" % s.regs_a64(k, rng.u64(), rng.u64(), rng.u64()), tag="aregs")
        s.meta[ln] = {"mask": k}
    out.append(("masks", s))
    n = 6000 if tier == "quick" else 120000
    chunks = 1 if tier == "quick" else 4
    for c in range(chunks):
        nm, sc = suites.exec_suite(rng, "a64", n // chunks)
        out.append(("%s-%d" % (nm, c), sc))
    worlds = 10 if tier == "quick" else 200
    for w in range(worlds):
        nm, sc = suites.dwarf_world(rng, "a64", nmods=3, nf=5, nprobes=80, policy="may" if w % 2 else "must")
        out.append(("%s-%d" % (nm, w), sc))
    return out

def judge(script, impl):
    bad = []
    for ln, line in sorted(impl.items()):
        toks = script.lines[ln - 1].split()
        op = toks[0]
        if op == "mask" and toks[1] == "max":
            a = script.meta[ln]["max"]
            if not line.startswith("mask "):
                bad.append((ln, "mask constructor did not return: " + line)); continue
            k = int(line.split()[1], 16)
            # preserves every address up to a  <=>  k is all-ones up to a's highest bit
            if (a & k) != a or any(((x & k) != x) for x in (a >> 1, a - 1 if a else 0, 0)):
                bad.append((ln, "mask 0x%x does not preserve addresses up to 0x%x" % (k, a)))
        elif op == "aregs":
            rg = [int(x, 16) for x in line.split()[1:]]
            if rg[1] & ~rg[0] & M64:
                bad.append((ln, "new_with_ptr_auth_mask left bits outside the mask in lr: " + line))
        elif op in ("exec", "unwind"):
            o = vlib.outcome(line)
            if o[0] == "panic":
                continue
            rg = vlib.regs_of(line)
            if rg is None:
                continue
            inmask = int(toks[toks.index("exec") + 1], 16) if False else None
            mask = rg[0]
            if o[0] == "ok" and o[1] == "some":
                if o[2] & ~mask & M64:
                    bad.append((ln, "reported return address has bits outside the mask: " + line))
                if rg[1] != o[2]:
                    bad.append((ln, "lr left in the register set differs from the reported address: " + line))
            if rg[1] & ~mask & M64:
                bad.append((ln, "lr left in the register set has bits outside the mask: " + line))
    return bad

def project(script, ln, line):
    return vlib.norm(line, keep_alloc=False)
