"""C05 - one DWARF step = DWARF semantics; compression lossless.
Oracle independent of the Coq model: a Python implementation of the DWARF row semantics (exact
integers). Cases where another property's guard applies (null RA, no progress, backwards, frame
pointer sanity) are not judged here; the known finding S14 is classified."""
import vlib, suites
from fhgen import *

RULE = ("grid of rows: CFA register {sp, fp} x offsets {aligned, unaligned, not fitting u16/i16, negative, huge} x fp rule "
        "{undefined, same, saved at slot} x ra rule {undefined, same, saved at slot (standard and other slots)}, each "
        "against several register/stack states incl. sp/fp >= 2^63, first and caller frames, three presentations; "
        "distinct = (arch, translatable?, cfa reg, ra rule, fp rule, first/caller)")
ASSUMPTIONS = ["stack reader is a pure partial function", "row class and guard cases as in Props/C05.v"]
TRUSTED_BASE = ["modelled not verified: gimli (CFI parsing, row computation)"]

OFFS = {"x86": [8, 16, 24, 32, 64, 12, 4, 0, 8 * 0xffff, 8 * 0x10000, -8, 20, 1 << 40, 0x8010, 0x8008, 0x10000,
                0x20010, 0x3fff8, 0x40000, 0x40008, 0x7ff8],
        "a64": [0, 16, 32, 48, 96, 8, 24, 12, 16 * 0xffff, 16 * 0x10000, -16, 1 << 40, 0x8010, 0x8000, 0x10000,
                0x20010, 0x3fff0, 0x40000, 0x40010, 0x7ff0]}
SLOTS = [-8, -16, -24, -32, -12, -40, 8, 0]

def spec(arch, row, first, regs, mem):
    """(ora, cfa, fp') or None when undefined; ora None = end of stack."""
    R = ARCH_REGS[arch]
    sp, fp, rav = regs
    if row["ra"][0] == "u":
        return ("end", 0, 0)
    c = row["cfa"]
    if c[0] != "r" or c[1] not in (R["sp"], R["fp"]):
        return None
    base = sp if c[1] == R["sp"] else fp
    cfa = base + c[2]
    if not (0 <= cfa <= M64):
        return None
    def slot(rule, same):
        if rule[0] == "o":
            a = cfa + rule[1]
            if not (0 <= a <= M64) or a not in mem:
                return None
            return mem[a]
        if rule[0] in ("s", "u"):
            return same
        if rule[0] == "vo":
            v = cfa + rule[1]                      # DW_CFA_val_offset: the value IS cfa + offset
            return v if 0 <= v <= M64 else None
        if rule[0] == "reg":
            # DW_CFA_register: the value of another register of THIS frame (only sp, fp and the return-address register exist)
            return {R["sp"]: sp, R["fp"]: fp, R["ra"]: rav}.get(rule[1])
        return None
    f = slot(row["fp"], fp)
    ra = slot(row["ra"], rav) if row["ra"][0] != "u" else None
    if f is None or ra is None:
        return None
    return (ra, cfa, f)

def generate(rng, tier):
    out = []
    reps = 6 if tier == "quick" else 200
    def rows_script(name, arch, rows, rep, nstates):
        R = ARCH_REGS[arch]
        s = Script(arch, "may" if rep % 4 < 2 else "must")
        lo_base, hi_base = 0x7000, (1 << 63) + 0x7000
        memd = {}
        for b in (lo_base, hi_base):
            for i in range(128):
                c = rng.below(12)
                v = 0 if c == 0 else (0x20000 + rng.below(0x1000) if c < 8 else (b + 8 * rng.below(140)))
                memd[b + 8 * i] = v
        mem_line = s.add("mem S 0")          # placeholder, filled in below
        pres = ["hdr", "eh", "debug"][rep % 3]
        fdes = [dict(start=0x1000 + 0x10 * i, len=0x10, rows=[(0, r)]) for i, r in enumerate(rows)]
        s.module_dwarf("M", 0x100000, 0x100000 + 0x1000 + 0x10 * len(rows) + 0x100, 0x100000, 0, pres, fdes, rng, shuffle=True)
        s.add("new U"); s.add("add U M")
        def want(a):
            # make the slot readable (most of the time) so that the specification is defined
            # (slots that are not 8-aligned too: rows with such slots do not compress, the words are read all the same)
            if 0 <= a <= M64 and a % 4 == 0 and a not in memd and rng.chance(7, 8):
                c = rng.below(12)
                memd[a] = 0 if c == 0 else (0x20000 + rng.below(0x1000) if c < 8 else (lo_base + 8 * rng.below(140)))
        for i, r in enumerate(rows):
            for st in range(nstates):
                base = hi_base if rng.chance(1, 5) else lo_base
                sp = base + 8 * rng.range(0, 60) * (2 if arch == "a64" else 1)
                fp = base + 8 * rng.range(0, 100)
                first = rng.below(2)
                a = 0x100000 + 0x1000 + 0x10 * i + rng.choice([0, 1, 0xf])
                kind = "ip" if first else "ra"
                addr = a if first else a + 1
                if r["cfa"][0] == "r":
                    cfa_v = (sp if r["cfa"][1] == R["sp"] else fp) + r["cfa"][2]
                    if r["ra"][0] == "o" and rng.chance(1, 6):
                        # direct recursion through one call site: the caller's return address equals this frame's code address
                        slot_a = cfa_v + r["ra"][1]
                        if 0 <= slot_a <= M64 and slot_a % 8 == 0 and slot_a not in memd:
                            memd[slot_a] = a
                    for rule in (r["fp"], r["ra"]):
                        if rule[0] == "o":
                            want(cfa_v + rule[1])
                if arch == "x86":
                    rav = a
                    regs = s.regs_x86(a, sp, fp)
                else:
                    rav = 0x30000 + rng.below(0x100)
                    regs = s.regs_a64(M64 if rng.chance(1, 2) else (1 << 48) - 1, rav, sp, fp)
                s.add("newcache F")
                ln = s.add("unwind U F %s %s %s S" % (kind, hx(addr), regs))
                s.meta[ln] = {"row": i, "rowdef": r, "first": first, "sp": sp, "fp": fp, "rav": rav, "arch": arch}
                s.tags[ln] = "%s:%s:%s:%s:%d" % (arch, "expr" if r["cfa"][0] != "r" else ("sp" if r["cfa"][1] == R["sp"] else "fp"), r["ra"][0], r["fp"][0], first)
        items = sorted(memd.items())
        s.lines[mem_line - 1] = "mem S %d %s" % (len(items), " ".join("%s %s" % (hx(a), hx(v)) for a, v in items))
        out.append((name, s))

    nstates = 3 if tier == "quick" else 6
    for rep in range(reps):
        arch = "x86" if rep % 2 == 0 else "a64"
        R = ARCH_REGS[arch]
        rows = []
        for i in range(64):
            cfa = ("r", rng.choice([R["sp"], R["sp"], R["fp"]]), rng.choice(OFFS[arch]))
            fpr = rng.choice([("u",), ("s",), ("o", rng.choice(SLOTS)), ("o", -16)])
            rar = rng.choice([("u",), ("s",), ("o", -8), ("o", -8), ("o", rng.choice(SLOTS))])
            rows.append(dict(cfa=cfa, fp=fpr, ra=rar))
        rows_script("rows-%s-%d" % (arch, rep), arch, rows, rep, nstates)
    # systematic part, in scripts of at most 100 rows (the extracted model rebuilds the index on every call)
    for gi in range(1 if tier == "quick" else 8):
        for arch in ("x86", "a64"):
            R = ARCH_REGS[arch]
            sysrows = []
            # the full cross product of the small special values (the shortcuts of the translation are conjunctions
            # of exactly such values: every combination occurs, not only the standard ones)
            small = [("u",), ("s",), ("o", -8), ("o", -16), ("o", -24), ("o", -12), ("o", -20), ("o", -4)]
            for reg in (R["sp"], R["fp"]):
                for off in (0, 8, 16, 24, 32, 12, 20):
                    for fpr in small:
                        for rar in small:
                            sysrows.append(dict(cfa=("r", reg, off), fp=fpr, ra=rar))
            # slots and frame sizes around the limits of the compressed rules (u16 / i16 counts of 8 or 16 bytes)
            gran = 8 if arch == "x86" else 16
            for reg in (R["sp"], R["fp"]):
                for off in (0x3fff8 if arch == "x86" else 0x3fff0, 0x40000, 0x40000 + gran, 0x50000, 0x80000 - gran, 0x80000, 0x100000 - gran, 0x100000):
                    # ... incl. slots exactly at the ends of the i16 range of the sp-relative slot index (L - gran is the last
                    # that fits, L the first that does not; -L the lowest that fits): seeded change C05-3 took L for fitting
                    L = 0x40000
                    for fpr in (("s",), ("o", -16), ("o", -off), ("o", 8 - off) if arch == "x86" else ("o", 16 - off),
                                ("o", L - off), ("o", L - gran - off), ("o", -L - off), ("o", -L - gran - off)):
                        if fpr == ("o", 0):
                            continue
                        for rar in (("o", -8), ("s",), ("o", 8 - off)):
                            sysrows.append(dict(cfa=("r", reg, off), fp=fpr, ra=rar))
            # the rarely used rule forms: val_offset and register, for the frame pointer and the return address
            for reg in (R["sp"], R["fp"]):
                for off in (2 * gran, 4 * gran):
                    for other in (("vo", -8), ("vo", 0), ("vo", 16), ("reg", R["sp"]), ("reg", R["fp"]), ("reg", R["ra"]), ("reg", 3)):
                        sysrows.append(dict(cfa=("r", reg, off), fp=other, ra=("o", -8)))
                        sysrows.append(dict(cfa=("r", reg, off), fp=("s",), ra=other))
            # expressions that do not produce an address (every way framehop's evaluation gives up), in every position
            zoo = [[], [("bad",)], [("plus",)], [("drop",)], [("reg0",)], [("breg", R["sp"], 8), ("stackvalue",)], [("deref",)],
                   [("breg", R["sp"], 16), ("deref",)], [("breg", 40, 0)], [("lit", 3), ("lit", 4)], [("breg", R["sp"], 32)]]
            for ops in zoo:
                sysrows.append(dict(cfa=("e", ops), fp=("s",), ra=("o", -8)))
                sysrows.append(dict(cfa=("r", R["sp"], 32), fp=("e", ops), ra=("o", -8)))
                sysrows.append(dict(cfa=("r", R["sp"], 32), fp=("s",), ra=("e", ops)))
                sysrows.append(dict(cfa=("r", R["sp"], 32), fp=("ve", ops), ra=("ve", ops)))
            for ci in range(0, len(sysrows), 100):
                rows_script("grid-%s-%d-%d" % (arch, gi, ci // 100), arch, sysrows[ci:ci + 100], gi * 7 + ci // 100, 2 if tier == "quick" else 4)
    # the compressed rules themselves, at the hook level (model correspondence)
    for arch in ("x86", "a64"):
        nm, sc = suites.exec_suite(rng, arch, 3000 if tier == "quick" else 60000)
        out.append((nm, sc))
    return out

def translatable_a64(row):
    # only what the known-finding classifier needs: does an sp-based row with these rules compress
    R = ARCH_REGS["a64"]
    c = row["cfa"]
    return c[1] == R["sp"] and c[2] % 16 == 0 and 0 <= c[2] // 16 < 65536

def tup(x):
    return tuple(tup(y) for y in x) if isinstance(x, (list, tuple)) else x

def rowdef(m):
    r = m["rowdef"]
    return dict(cfa=tup(r["cfa"]), fp=tup(r["fp"]), ra=tup(r["ra"]))

def mem_of(script, mid="S"):
    for l in script.lines:
        t = l.split()
        if len(t) > 2 and t[0] == "mem" and t[1] == mid:
            return {int(t[3 + 2 * i], 16): int(t[4 + 2 * i], 16) for i in range(int(t[2]))}
    return {}

def judge(script, impl):
    bad = []
    memd = mem_of(script)
    for ln, m in script.meta.items():
        if "rowdef" not in m:
            continue
        line = impl.get(ln)
        if line is None:
            continue
        arch = m["arch"]; R = ARCH_REGS[arch]
        row = rowdef(m)
        first = m["first"]
        sp, fp, rav = m["sp"], m["fp"], m["rav"]
        sx = spec(arch, row, first, (sp, fp, rav), memd)
        if sx is None:
            continue
        o = vlib.outcome(line); rg = vlib.regs_of(line)
        if o[0] == "panic":
            bad.append((ln, "panic: " + line)); continue
        ra, cfa, f = sx
        on_fp = row["cfa"][1] == R["fp"]
        if ra == "end":
            if o[:2] != ("ok", "none"):
                bad.append((ln, "return address undefined must end the stack: row %s first=%d got %s" % (row, first, line)))
            continue
        mask = rg[0] if arch == "a64" else M64
        exp_ra = ra & mask
        # guard cases justified by C10 / C11 (not judged here)
        if exp_ra == 0:
            continue
        if arch == "x86":
            if (cfa == sp and ra == rav) or cfa < sp or (not first and cfa <= sp):
                continue
            if on_fp and (fp == 0 or cfa <= sp):
                continue
        else:
            if not first and (cfa <= sp or row["ra"][0] == "s"):
                continue
            if on_fp and (f == 0 or f <= fp or cfa <= sp):
                continue
        if o[:2] != ("ok", "some") or o[2] != exp_ra:
            bad.append((ln, "row %s first=%d sp=%#x fp=%#x: DWARF prescribes ra=%#x cfa=%#x fp=%#x, got %s" % (row, first, sp, fp, exp_ra, cfa, f, line)))
            continue
        if arch == "x86":
            got = (rg[0], rg[8], rg[7])
        else:
            got = (rg[1], rg[2], rg[3])
        if got != (exp_ra, cfa, f):
            bad.append((ln, "row %s first=%d: registers after the step (ra,sp,fp)=%s, DWARF prescribes %s" % (row, first, [hex(x) for x in got], [hex(x) for x in (exp_ra, cfa, f)])))
    return bad

def k_s14(script, ln, line, desc):
    """aarch64: undefined return-address / frame-pointer rules are not treated as DWARF prescribes
    (first frames read 'undefined lr' as same-value; the generic path errors in caller frames)."""
    m = script.meta.get(ln)
    if not m or "rowdef" not in m or m["arch"] != "a64":
        return False
    row = rowdef(m)
    R = ARCH_REGS["a64"]
    if row["ra"][0] == "u":
        if m["first"]:
            return True
        return not (translatable_a64(row) and row["fp"][0] != "o")
    if row["fp"][0] == "u" and not m["first"]:
        # generic path only (the row does not compress)
        return True
    return False

KNOWN = {"S14_a64_undefined_rules": k_s14}

def project(script, ln, line):
    return vlib.norm(line, keep_alloc=False)
