"""C15 - MustNotAllocateDuringUnwind really never allocates and agrees with the default.
Every scenario of the batteries of C01 (DWARF ground-truth walks), C02 (Mach-O), C03 (PE), C04 (fallback matrix),
C05 (DWARF grid incl. generic/expression paths), C11 (truncations) and C12 (presentations) is run
under MustNotAllocateDuringUnwind with an instrumented global allocator: the number of allocator
calls (alloc, dealloc, realloc) made by the unwinding thread inside unwind_frame, iter_frames and
every next() must be 0.  The same script is run under MayAllocateDuringUnwind and every result line
(return address / error, registers, cache statistics) must be identical.  DWARF expressions whose
evaluation needs more than the fixed 64-entry stack are the one place where the policies may
differ; the capacity model predicts the MustNot result there and the correspondence checks it."""
import re, os
import vlib
from fhgen import *
from props import C01, C02, C03, C04, C05, C11, C12, C06

RULE = ("batteries of C01, C02, C03, C04, C05, C11, C12 (one script of every kind) + expression-depth scenarios 62..67 and 1..5 nested remember_state under both "
        "policies; per unwinding call / iterator step: allocator calls == 0 under MustNot; line-by-line equality of "
        "the two policies where the storage suffices; distinct = (source battery, op, outcome class)")
ASSUMPTIONS = ["allocator calls are observed for the thread that unwinds (counting global allocator in the harness)",
               "every module format of the model is in the battery"]
TRUSTED_BASE = ["counting #[global_allocator] in /verif/harness (counts alloc/dealloc/realloc of the script thread between entry and exit of the call)",
                "modelled not verified: gimli's StoreOnStack evaluation (capacity model: push beyond 64 entries fails)"]

ALLOCS_RE = re.compile(r" ; allocs (\d+)$")
_pairs = []

def repolicy(script, policy):
    s = Script.__new__(Script)
    s.__dict__.update(script.__dict__)
    s.lines = list(script.lines)
    s.lines[0] = re.sub(r"policy=\w+", "policy=" + policy, s.lines[0])
    if "count=1" not in s.lines[0]:
        s.lines[0] += " count=1"
    return s

def depth_suite(rng, tier):
    """CFA given by an expression that pushes d literals and adds them up: d = 62..67 around the fixed capacity"""
    out = []
    for arch, pres in [(a, p) for a in ("x86", "a64") for p in ("hdr", "eh", "debug")]:
        R = ARCH_REGS[arch]
        s = Script(arch, "must")
        fdes = []
        depths = [1, 2, 62, 63, 64, 65, 66, 67, 100]
        for i, d in enumerate(depths):
            e = [("breg", R["sp"], 0)] + [("lit", 1)] * (d - 1) + [("plus",)] * (d - 1)
            # CFA = sp + (d-1), made a multiple of 16 by a final plus_uconst
            pad = (16 - (d - 1) % 16) % 16 + 16
            e.append(("pluc", pad))
            row = dict(cfa=("e", e), fp=("s",), ra=("o", -8))
            fdes.append(dict(start=0x1000 + 0x100 * i, len=0x100, rows=[(0, row)]))
        # expressions in the other positions (return address, frame pointer; location and value forms): each evaluation
        # has its own storage parameter
        gran = 8 if arch == "x86" else 16
        xrows = [dict(cfa=("r", R["sp"], 2 * gran), fp=("s",), ra=("e", [("breg", R["sp"], 8)])),
                 dict(cfa=("r", R["sp"], 2 * gran), fp=("ve", [("breg", R["fp"], 0)]), ra=("o", -8)),
                 dict(cfa=("r", R["sp"], 2 * gran), fp=("e", [("breg", R["sp"], 0)]), ra=("ve", [("breg", R["sp"], 0x11940 - 0x7000)])),
                 dict(cfa=("e", [("breg", R["sp"], 2 * gran)]), fp=("e", [("breg", R["sp"], 0)]), ra=("e", [("breg", R["sp"], 8)]))]
        for j, row in enumerate(xrows):
            fdes.append(dict(start=0x1000 + 0x100 * (len(depths) + j), len=0x100, rows=[(0, row)]))
        s.module_dwarf("M", 0x10000, 0x20000, 0x10000, 0, pres, fdes, rng)
        s.add("new U"); s.add("add U M"); s.add("newcache C")
        base = 0x7000
        pairs = {a: 0x11000 + 0x100 * ((a >> 3) % len(depths)) + 0x20 for a in range(base, base + 0x400, 8)}
        s.mem("S", sorted(pairs.items()))
        for i, d in enumerate(depths):
            pc = 0x11000 + 0x100 * i + 0x10
            regs = s.regs_x86(pc, base, base + 0x100) if arch == "x86" else s.regs_a64(M64, 0x11f00, base, base + 0x100)
            for kind in ("ip", "ra"):
                ln = s.add("unwind U C %s %s %s S" % (kind, hx(pc + (1 if kind == "ra" else 0)), regs),
                           tag="depth:%s:%s:%d:%s" % (arch, pres, d, kind))
                s.meta[ln] = {"depth": d}
        for j in range(len(xrows)):
            pc = 0x11000 + 0x100 * (len(depths) + j) + 0x10
            regs = s.regs_x86(pc, base, base + 0x100) if arch == "x86" else s.regs_a64(M64, 0x11f00, base, base + 0x100)
            for kind in ("ip", "ra"):
                s.add("unwind U C %s %s %s S" % (kind, hx(pc + (1 if kind == "ra" else 0)), regs), tag="exprpos:%s:%s:%d:%s" % (arch, pres, j, kind))
        # and the iterator over the same frames
        s.add("iter U C 0x11010 %s S 4 0" % (s.regs_x86(0x11010, base, base + 0x100) if arch == "x86" else s.regs_a64(M64, 0x11f00, base, base + 0x100)),
              tag="depth-iter:%s:%s" % (arch, pres))
        out.append(("depth-%s-%s" % (arch, pres), s))
    return out

def nested_suite(rng, depths=(1, 2, 3, 4, 5)):
    """CFI programs with d nested DW_CFA_remember_state: gimli keeps the remembered rows on a fixed stack of 4 under
    MustNot (the current row included: up to 3 remembered rows fit)"""
    out = []
    for arch in ("x86", "a64"):
        R = ARCH_REGS[arch]
        gran = 8 if arch == "x86" else 16
        for pres in ("hdr", "eh", "debug"):
            s = Script(arch, "must")
            fdes = []
            for d in depths:
                rows = [(4 * i, dict(cfa=("r", R["sp"], gran * (i + 1)), fp=("s",), ra=(("o", -8) if arch == "x86" else ("s",))))
                        for i in range(2 * d + 1)]
                fdes.append(dict(start=0x1000 + 0x100 * d, len=0x100, rows=rows,
                                 remember_at=tuple(4 * i for i in range(1, d + 1)),
                                 restore_at=tuple(4 * i for i in range(d + 1, 2 * d + 1))))
            s.module_dwarf("M", 0x10000, 0x20000, 0x10000, 0, pres, fdes, rng)
            s.add("new U"); s.add("add U M"); s.add("newcache C")
            base = 0x7000
            s.mem("S", [(a, 0x11100 + 0x100 * ((a >> 3) % 3) + 0x40) for a in range(base, base + 0x200, 8)])
            for d in depths:
                for i in range(2 * d + 1):
                    pc = 0x11000 + 0x100 * d + 4 * i + 1
                    regs = s.regs_x86(pc, base, base + 0x80) if arch == "x86" else s.regs_a64(M64, 0x11140, base, base + 0x80)
                    ln = s.add("unwind U C ip %s %s S" % (hx(pc), regs), tag="nested:%s:%s:%d" % (arch, pres, d))
                    s.meta[ln] = {"rowdepth": d}
            out.append(("nested-%s-%s" % (arch, pres), s))
    return out

def generate(rng, tier):
    out = []
    q = "quick"
    n = 2 if tier == "quick" else 6
    # (C06's histories: several unwinders, older and newer module-set identities, taking turns on shared caches - what the
    # cache does when it replaces an entry happens inside the unwinding call too; seeded change C15-14)
    srcs = [("c01", C01), ("c02", C02), ("c03", C03), ("c04", C04), ("c05", C05), ("c06", C06), ("c11", C11), ("c12", C12)]
    for tag, m in srcs:
        # one script of every kind the battery has (architecture, format, stream) before a second of any kind;
        # hook-level streams (analyze / exec only) make no unwinding calls and are left out
        seen, chosen, rest = set(), [], []
        for name, s in m.generate(rng, q):
            if not any(l.split(" ", 1)[0] in ("unwind", "iter", "trace") for l in s.lines):
                continue
            cls = re.sub(r"[-_]?\d+", "", name)
            (chosen if cls not in seen else rest).append((name, s))
            seen.add(cls)
        for k, (name, s) in enumerate((chosen + rest)[:max(n, min(len(chosen), 6))]):
            r = repolicy(s, "must")
            if k % 2 == 1:
                # every other script hands framehop section bytes that start at an odd address (a view into a file
                # mapping): nothing may depend on their alignment, least of all an "aligned copy" (seeded change C15-13)
                r.lines[0] += " misalign=%d" % (1 + k % 3)
                name += "-misaligned"
            out.append(("%s-%s" % (tag, name), r))
    out += [(n_, repolicy(s, "must")) for n_, s in depth_suite(rng, tier)]
    out += [(n_, repolicy(s, "must")) for n_, s in nested_suite(rng)]
    _pairs[:] = out
    return out

def judge(script, impl):
    bad = []
    for ln, line in impl.items():
        op = script.lines[ln - 1].split(" ", 1)[0] if ln - 1 < len(script.lines) else ""
        if op == "unwind":
            e = vlib.eff_of(line)
            if e and e[1] != 0:
                bad.append((ln, "unwind_frame made %d allocator call(s) under MustNotAllocateDuringUnwind: %s" % (e[1], line[:300])))
        elif op in ("iter", "trace"):
            m = ALLOCS_RE.search(line)
            if m and int(m.group(1)) != 0:
                bad.append((ln, "%s made %s allocator call(s) under MustNotAllocateDuringUnwind: %s" % (
                    "iter_frames / next()" if op == "iter" else "a walk of unwind_frame calls", m.group(1), line[:300])))
    return bad

def strip(line):
    if line is None:
        return None
    line = ALLOCS_RE.sub("", line)
    return vlib.norm(line, keep_alloc=False)

def extra_checks(R, rng, tier):
    """the allocating policy on the same scripts: identical results wherever the fixed storage suffices"""
    viol = []
    total = 0
    for name, s_must in _pairs:
        s_may = repolicy(s_must, "may")
        must, _ = R.run_script(name, s_must, False)
        may, _ = R.run_script(name + "-may", s_may, False)
        for ln in sorted(set(must) | set(may)):
            total += 1
            meta = s_must.meta.get(ln, {}) if isinstance(s_must.meta.get(ln, {}), dict) else {}
            if meta.get("depth", 0) > 64 or meta.get("rowdepth", 0) > 3:
                continue                     # storage does not suffice: the policies may differ (model decides what MustNot returns)
            a, b = strip(must.get(ln)), strip(may.get(ln))
            if a != b:
                viol.append(("policies disagree (suite %s line %d)" % (name, ln),
                             "op     : %s\nMustNot: %s\nMay    : %s\nscript : %s" % (
                                 s_must.lines[ln - 1][:500], must.get(ln), may.get(ln), os.path.join(R.rundir, name + ".txt"))))
                break
    return {"violations": viol, "evaluations": total, "info": {"twin_scripts": len(_pairs)}}

def project(script, ln, line):
    if line is None:
        return None
    if script.lines[ln - 1].startswith("msproc"):
        return "spec"
    mm = script.meta.get(ln)
    if isinstance(mm, dict) and mm.get("rowdepth", 0) > 3:
        return "beyond the fixed row stack"        # the abstract rows of the model do not carry gimli's remembered-row stack
    line = ALLOCS_RE.sub("", line)
    return vlib.norm(line, keep_alloc=True)
