"""C19 - every feature combination builds (incl. no_std) and unwinds identically.
The harness is built against /repo's working tree once per subset of {std, macho, pe}; a fixed
battery of DWARF and frame-pointer scenarios (ground-truth walks of C01, the fallback matrix of
C04, the three presentations of C12) is run on each binary and every result line is compared with
the default build's (and, for the default build, with the model and the truth)."""
import os, subprocess, hashlib
import vlib
from fhgen import *
from props import C01, C04, C12

RULE = ("8 feature subsets x battery (C01 ground-truth walks on both architectures and policies, C04 fallback "
        "matrix, C12 presentation triples); distinct = (subset, suite)")
ASSUMPTIONS = ["host-target builds (cargo build --no-default-features --features ...) stand for 'builds'; no bare-metal target is installed"]
TRUSTED_BASE = ["tools/extract_consts.py: selector list of ModuleUnwindDataInternal::new regenerated from src/unwinder.rs",
                "cargo feature resolution; the harness crate forwards its features to framehop with default-features = false"]

SUBSETS = [[], ["std"], ["macho"], ["pe"], ["std", "macho"], ["std", "pe"], ["macho", "pe"], ["std", "macho", "pe"]]
_battery = []

def generate(rng, tier):
    out = []
    out += [("c01-" + n, s) for n, s in C01.generate(rng, "quick")[: (4 if tier == "quick" else 6)]]
    out += [("c04-" + n, s) for n, s in C04.generate(rng, "quick")[: (4 if tier == "quick" else 12)]]
    out += [("c12-" + n, s) for n, s in C12.generate(rng, "quick")[: (2 if tier == "quick" else 6)]]
    for n, sc in out:
        sc.c19_judge = {"c01": C01.judge, "c04": C04.judge, "c12": C12.judge}[n[:3]]
    _battery[:] = out
    return out

def judge(script, impl):
    # the default build is also held to the oracles of the properties the battery is taken from
    j = getattr(script, "c19_judge", None)
    return j(script, impl) if j else []

def extra_checks(R, rng, tier):
    viol = []
    total = 0
    info = {"subsets": {}}
    ref = {}
    for name, script in _battery:
        path = os.path.join(R.rundir, name + ".txt")
        impl, rc = vlib.run_impl(R.bin, path)
        ref[name] = impl
    for fs in SUBSETS:
        label = ",".join(fs) or "(none)"
        ok, path, cmd, out = vlib.build_harness(features=fs)
        R.cmds.append("RUSTFLAGS='--cfg %s' %s" % (vlib.GUARD, cmd))
        if not ok:
            viol.append(("feature subset [%s] does not build" % label, cmd + "\n" + out[-2500:]))
            info["subsets"][label] = "build failed"
            continue
        h = hashlib.sha256()
        differ = None
        for name, script in _battery:
            spath = os.path.join(R.rundir, name + ".txt")
            impl, rc = vlib.run_impl(path, spath)
            total += len(impl)
            for ln in sorted(set(impl) | set(ref[name])):
                # allocation counts are C15's subject; results, registers, statistics and section reads are compared
                a, b = vlib.norm(impl.get(ln), keep_alloc=False), vlib.norm(ref[name].get(ln), keep_alloc=False)
                h.update(("%s %d %s\n" % (name, ln, a)).encode())
                if a != b and differ is None:
                    differ = (name, ln, a, b, script.lines[ln - 1][:400] if ln - 1 < len(script.lines) else "")
        info["subsets"][label] = h.hexdigest()[:16]
        if differ:
            name, ln, a, b, op = differ
            viol.append(("feature subset [%s] unwinds differently from the default build (suite %s line %d)" % (label, name, ln),
                         "op     : %s\nsubset : %s\ndefault: %s\nbuild  : %s\nscript : %s" % (op, a, b, cmd, os.path.join(R.rundir, name + ".txt"))))
    return {"violations": viol, "evaluations": total, "info": info}

def project(script, ln, line):
    return vlib.norm(line, keep_alloc=False)
