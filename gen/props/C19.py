"""C19 - every feature combination builds (incl. no_std) and unwinds identically.
The harness is built against /repo's working tree once per subset of {std, macho, pe}; a fixed
battery of DWARF and frame-pointer scenarios (ground-truth walks of C01, the fallback matrix of
C04, the three presentations of C12) is run on each binary and every result line is compared with
the default build's (and, for the default build, with the model and the truth)."""
import os, subprocess, hashlib
import vlib
from fhgen import *
from props import C01, C04, C06, C12, C20

RULE = ("8 feature subsets x battery (C01 ground-truth walks on both architectures and policies, C04 fallback "
        "matrix, C12 presentation triples); distinct = (subset, suite)")
ASSUMPTIONS = ["host-target builds (cargo build --no-default-features --features ...) stand for 'builds'; no bare-metal target is installed"]
TRUSTED_BASE = ["tools/extract_consts.py: selector list of ModuleUnwindDataInternal::new regenerated from src/unwinder.rs",
                "cargo feature resolution; the harness crate forwards its features to framehop with default-features = false"]

SUBSETS = [[], ["std"], ["macho"], ["pe"], ["std", "macho"], ["std", "pe"], ["macho", "pe"], ["std", "macho", "pe"]]
_battery = []

def nested_state_suite(rng):
    """CFI programs with 1..3 nested DW_CFA_remember_state (gimli's fixed row stack) under both policies, and
    expression depths around the fixed evaluation stack (C15's suite)"""
    out = []
    for arch in ("x86", "a64"):
        R = ARCH_REGS[arch]
        gran = 8 if arch == "x86" else 16
        for policy in ("must", "may"):
            s = Script(arch, policy)
            fdes = []
            for d in (1, 2, 3):
                rows = [(4 * i, dict(cfa=("r", R["sp"], gran * (i + 1)), fp=("s",), ra=(("o", -8) if arch == "x86" else ("s",))))
                        for i in range(2 * d + 1)]
                fdes.append(dict(start=0x1000 + 0x100 * d, len=0x100, rows=rows,
                                 remember_at=tuple(4 * i for i in range(1, d + 1)),
                                 restore_at=tuple(4 * i for i in range(d + 1, 2 * d + 1))))
            s.module_dwarf("M", 0x10000, 0x20000, 0x10000, 0, rng.choice(["hdr", "eh", "debug"]), fdes, rng)
            s.add("new U"); s.add("add U M"); s.add("newcache C")
            base = 0x7000
            s.mem("S", [(a, 0x11100 + 0x100 * ((a >> 3) % 3) + 0x40) for a in range(base, base + 0x200, 8)])
            for d in (1, 2, 3):
                for i in range(2 * d + 1):
                    pc = 0x11000 + 0x100 * d + 4 * i + 1
                    regs = s.regs_x86(pc, base, base + 0x80) if arch == "x86" else s.regs_a64(M64, 0x11140, base, base + 0x80)
                    s.add("unwind U C ip %s %s S" % (hx(pc), regs), tag="nested:%s:%s:%d" % (arch, policy, d))
            out.append(("nested-%s-%s" % (arch, policy), s))
    return out

def generate(rng, tier):
    out = []
    out += [("c01-" + n, s) for n, s in C01.generate(rng, "quick")[: (4 if tier == "quick" else 6)]]
    out += [("c04-" + n, s) for n, s in C04.generate(rng, "quick")[: (4 if tier == "quick" else 12)]]
    c12 = C12.generate(rng, "quick")
    named = [x for x in c12 if any(" __eh_frame " in l for l in x[1].lines[:8])]      # DWARF-only images with the Mach-O section spelling
    # sets with several CIEs of different pointer encodings (absolute, pc- / text- / data-relative), interleaved FDEs
    pick = [c12[2], c12[5]] if tier == "quick" else c12[:7]
    out += [("c12-" + n, s) for n, s in pick + [x for x in named[:1] if x not in pick]]
    # histories on shared caches (failing calls followed by succeeding ones at the same address, module changes)
    out += [("c06-" + n, s) for n, s in [x for x in C06.generate(rng, "quick") if x[0].startswith("hist-")][: (3 if tier == "quick" else 8)]]
    out += [("c20-" + n, s) for n, s in C20.generate(rng, "quick")[: (2 if tier == "quick" else 6)]]
    for n, sc in out:
        sc.c19_judge = {"c01": C01.judge, "c04": C04.judge, "c12": C12.judge, "c06": C06.judge, "c20": C20.judge}[n[:3]]
    from props import C15
    out += nested_state_suite(rng)
    out += [("c15-" + n, sc) for n, sc in C15.depth_suite(rng, tier)]
    _battery[:] = out
    return out

def judge(script, impl):
    # the default build is also held to the oracles of the properties the battery is taken from
    j = getattr(script, "c19_judge", None)
    return j(script, impl) if j else []

def extra_checks(R, rng, tier):
    viol = []
    total = 0
    info = {"subsets": {}}
    ref = {}
    for name, script in _battery:
        path = os.path.join(R.rundir, name + ".txt")
        impl, rc = vlib.run_impl(R.bin, path)
        ref[name] = impl
    for fs in SUBSETS:
        label = ",".join(fs) or "(none)"
        ok, path, cmd, out = vlib.build_harness(features=fs)
        R.cmds.append("RUSTFLAGS='--cfg %s' %s" % (vlib.GUARD, cmd))
        if not ok:
            viol.append(("feature subset [%s] does not build" % label, cmd + "\n" + out[-2500:]))
            info["subsets"][label] = "build failed"
            continue
        h = hashlib.sha256()
        differ = None
        for name, script in _battery:
            spath = os.path.join(R.rundir, name + ".txt")
            impl, rc = vlib.run_impl(path, spath)
            total += len(impl)
            for ln in sorted(set(impl) | set(ref[name])):
                # the property is about modules that need only DWARF or frame-pointer unwinding: probes into
                # the battery's PE module are not compared across subsets
                tg = script.tags.get(ln, "")
                if ":pe:" in tg or tg.startswith("pe:") or ":macho:" in tg or ":macho-" in tg or ":pe-" in tg:
                    continue
                # allocation counts are C15's subject; results, registers, statistics and section reads are compared
                a, b = vlib.norm(impl.get(ln), keep_alloc=False), vlib.norm(ref[name].get(ln), keep_alloc=False)
                h.update(("%s %d %s\n" % (name, ln, a)).encode())
                if a != b and differ is None:
                    differ = (name, ln, a, b, script.lines[ln - 1][:400] if ln - 1 < len(script.lines) else "")
        info["subsets"][label] = h.hexdigest()[:16]
        if differ:
            name, ln, a, b, op = differ
            viol.append(("feature subset [%s] unwinds differently from the default build (suite %s line %d)" % (label, name, ln),
                         "op     : %s\nsubset : %s\ndefault: %s\nbuild  : %s\nscript : %s" % (op, a, b, cmd, os.path.join(R.rundir, name + ".txt"))))
    return {"violations": viol, "evaluations": total, "info": info}

def project(script, ln, line):
    return vlib.norm(line, keep_alloc=False)
