"""C09 - totality on arbitrary runtime state: the judge on the REAL outputs is
'every unwinding call returned Ok or Err' (no panic, no hang)."""
import vlib, suites

RULE = ("hook-level grid: every rule constructor x boundary parameter values x first/caller x boundary-biased "
        "registers x readable/holed/empty readers; API level: valid DWARF modules of the three presentations "
        "probed at every FDE boundary +-1 with both address kinds. A case is non-trivial when it executes a rule "
        "or the generic path; distinct = distinct (arch, rule constructor or presentation, first/caller, reader class).")
ASSUMPTIONS = ["stack reader is a pure partial function", "overflow-checked (debug) build is what the model mirrors; "
               "release build run in the thorough tier", "valid modules: sections produced by the encoders in gen/fhgen.py"]
TRUSTED_BASE = ["modelled not verified: gimli (CFI parsing/row computation), arrayvec"]

def generate(rng, tier):
    n = 6000 if tier == "quick" else 150000
    out = []
    for arch in ("x86", "a64"):
        chunks = 1 if tier == "quick" else 5
        for c in range(chunks):
            nm, s = suites.exec_suite(rng, arch, n // chunks)
            out.append(("%s-%d" % (nm, c), s))
    worlds = 12 if tier == "quick" else 300
    for w in range(worlds):
        arch = "x86" if w % 2 == 0 else "a64"
        policy = "may" if (w // 2) % 2 == 0 else "must"
        nm, s = suites.dwarf_world(rng, arch, nmods=3, nf=5, nprobes=80, policy=policy, with_iter=True)
        out.append(("%s-%d" % (nm, w), s))
    return out

def judge(script, impl):
    bad = []
    for ln, line in sorted(impl.items()):
        op = script.lines[ln - 1].split(" ", 1)[0]
        if op not in ("exec", "unwind", "iter", "manual", "add", "mod", "remove"):
            continue
        if line.startswith("panic") or line.startswith("hang") or "| panic" in line:
            bad.append((ln, "unwinding call did not return Ok/Err: " + line))
    return bad

def project(script, ln, line):
    return vlib.norm(line, keep_alloc=False, keep_touch=False)
