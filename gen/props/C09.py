"""C09 - totality on arbitrary runtime state: the judge on the REAL outputs is
'every unwinding call returned Ok or Err' (no panic, no hang)."""
import vlib, suites

RULE = ("hook-level grid: every rule constructor x boundary parameter values x first/caller x boundary-biased "
        "registers x readable/holed/empty readers; API level: valid DWARF modules of the three presentations "
        "probed at every FDE boundary +-1 with both address kinds; valid PE and Mach-O modules at every instruction boundary with boundary-value registers. A case is non-trivial when it executes a rule "
        "or the generic path; distinct = distinct (arch, rule constructor or presentation, first/caller, reader class).")
ASSUMPTIONS = ["stack reader is a pure partial function", "overflow-checked (debug) build is what the model mirrors; "
               "release build run in the thorough tier", "valid modules: sections produced by the encoders in gen/fhgen.py"]
TRUSTED_BASE = ["modelled not verified: gimli (CFI parsing/row computation), arrayvec"]

def macho_opgrid(rng, tier):
    import machotruth as mt
    from fhgen import Script, hx, BOUNDARY, M64
    out = []
    # compact-unwind opcodes that are well-formed as far as the format goes but that no compiler would emit for a real
    # function: frameless-immediate entries with every register count, rbp at every position of the list and stack
    # sizes too small to hold what the list says is saved (and comfortable ones); every probe in both roles
    for w in range(1 if tier == "quick" else 4):
        s = Script("x86", "may" if w % 2 == 0 else "must")
        funcs = []
        pos = 0x1000
        for cnt in range(1, 7):
            for p_ in range(cnt):
                for words in (1, 2, 3, 4, 6, 8, 32):
                    f = mt.Func("x86", "g%d" % len(funcs), "opgrid")
                    rl = [1, 2, 3, 4, 5][:cnt - 1]
                    rl.insert(p_, 6)                                       # rbp (register 6) at position p_
                    f.emit(mt.I("fill"), "body", bytes([0x90] * 0x10))
                    f.opcode = (2 << 24) | (words << 16) | (cnt << 10) | (mt.perm_encode(rl) & 0x3ff)
                    f.start = pos; pos += 0x10
                    funcs.append(f)
        text = bytearray([0xCC] * (pos - 0x1000))
        for f in funcs:
            text[f.start - 0x1000: f.start - 0x1000 + f.length] = f.text()
        prog = dict(arch="x86", funcs=funcs, text_lo=0x1000, text=bytes(text), stubs=(pos, pos + 12), helper=(pos + 12, pos + 48), end=pos + 48)
        base = 0x100000000 + 0x10000 * rng.below(256)
        mt.module_macho(s, "M", prog, base, 0x100000000, rng, merge=False)
        s.add("new U"); s.add("add U M"); s.add("newcache C")
        lo = 0x10000 * rng.range(1, 0xfff)
        s.mem("S", [(lo + 8 * i, rng.choice([0, lo + 8 * rng.below(0x100), rng.u64(), base + 0x1000 + rng.below(0x400)])) for i in range(0x100)])
        for f in funcs:
            for mode in ("ip", "ra"):
                addr = base + f.start + 4 + (1 if mode == "ra" else 0)
                regs = s.regs_x86(addr, rng.choice([lo + 8 * rng.below(0x80), rng.choice(BOUNDARY)]), rng.choice([lo + 8 * rng.below(0x80), rng.choice(BOUNDARY)]))
                s.add("unwind U C %s %s %s S" % (mode, hx(addr), regs), tag="macho:x86:opgrid:%s" % mode)
        out.append(("macho-opgrid-%d" % w, s))
    return out

def generate(rng, tier):
    n = 6000 if tier == "quick" else 150000
    out = []
    for arch in ("x86", "a64"):
        chunks = 1 if tier == "quick" else 5
        for c in range(chunks):
            nm, s = suites.exec_suite(rng, arch, n // chunks)
            out.append(("%s-%d" % (nm, c), s))
    worlds = 12 if tier == "quick" else 300
    for w in range(worlds):
        arch = "x86" if w % 2 == 0 else "a64"
        policy = "may" if (w // 2) % 2 == 0 else "must"
        nm, s = suites.dwarf_world(rng, arch, nmods=3, nf=5, nprobes=80, policy=policy, with_iter=True)
        out.append(("%s-%d" % (nm, w), s))
    for arch in ("x86", "a64"):
        nm, s = suites.empty_fde_world(rng, arch, "must" if arch == "x86" else "may")
        out.append((nm, s))
    # stack pointers and frame pointers at the very bottom of the address space against rows whose CFA is the register
    # plus 0..16: `new_sp - 8` in the rule execution (S3) and `cfa - 8` in the generic evaluation (S4) then have nothing
    # to subtract from. Translatable rows (offsets that are multiples of 8, slots at -8 / -16) and untranslatable ones
    # (offsets 4, 12; return address by val_offset / in a register / at an unreadable slot) side by side.
    from fhgen import Script as _Script, hx as _hx, ARCH_REGS as _AR
    for arch in ("x86", "a64"):
        R = _AR[arch]
        rows = []
        for reg in (R["sp"], R["fp"]):
            for off in (0, 4, 8, 12, 16):
                for rar in (("o", -8), ("o", -16), ("o", -12), ("s",), ("vo", -8), ("reg", 3)):
                    for fpr in (("s",), ("o", -16)):
                        rows.append(dict(cfa=("r", reg, off), fp=fpr, ra=rar))
        for ci in range(0, len(rows), 60):
            part = rows[ci:ci + 60]
            s = _Script(arch, "may" if (ci // 60) % 2 == 0 else "must")
            fdes = [dict(start=0x1000 + 0x10 * i, len=0x10, rows=[(0, r)]) for i, r in enumerate(part)]
            s.module_dwarf("M", 0x100000, 0x100000 + 0x1000 + 0x10 * len(part) + 0x100, 0x100000, 0, ["hdr", "eh", "debug"][(ci // 60) % 3], fdes, rng, shuffle=True)
            s.add("new U"); s.add("add U M"); s.add("newcache C")
            s.mem("E", [])
            s.mem("Z", [(a, rng.choice([0, 0x100000 + 0x1000 + 0x10 * rng.below(len(part)), 8 * rng.below(8)])) for a in range(0, 0x80, 8)])
            for i, r in enumerate(part):
                for (spv, fpv) in ((0, 0), (0, 8), (7, 1), (8, 0), (4, 16), (16, 7)):
                    for kind in ("ip", "ra"):
                        a = 0x100000 + 0x1000 + 0x10 * i + 1
                        addr = a if kind == "ip" else a + 1
                        regs = s.regs_x86(a, spv, fpv) if arch == "x86" else s.regs_a64((1 << 48) - 1, a, spv, fpv)
                        s.add("unwind U C %s %s %s %s" % (kind, _hx(addr), regs, "E" if (spv + fpv) % 3 == 0 else "Z"),
                              tag="%s:lowsp:%s:%s:%s" % (arch, "sp" if r["cfa"][1] == R["sp"] else "fp", r["ra"][0], kind))
            out.append(("lowsp-%s-%d" % (arch, ci // 60), s))
    # valid PE modules (programs of C03's generator), every instruction boundary, boundary-value registers
    import petruth
    from fhgen import Script, hx, BOUNDARY, module_pe, M64
    for w in range(4 if tier == "quick" else 60):
        s = Script("x86", "may" if w % 2 == 0 else "must")
        prog = petruth.make_program(rng, 6)
        base = 0x7ff600000000
        module_pe(s, "M", base, base + 0x400000, base, 0x140000000, prog["table"], prog["uinfos"], prog["text_lo"], prog["text"])
        s.add("new U"); s.add("add U M"); s.add("newcache C")
        lo = 0x10000 * rng.range(1, 0xfff)
        s.mem("S", [(lo + 8 * i, rng.choice([0, lo + 8 * rng.below(0x100), rng.u64(), base + 0x1000 + rng.below(0x400)])) for i in range(0x100)])
        s.mem("E", [])
        s.mem("T", [(a, rng.choice([0, base + 0x1000 + rng.below(0x400), M64 - 8 * rng.below(64), rng.u64()])) for a in range(M64 - 0x1fff, M64, 8)] +
                   [(M64 - 6, 0x1234), (M64 - 1, 0x5678), (M64, 0x9abc)])
        pts = [(f, b) for f in prog["funcs"] for b in petruth.boundaries(f)]
        for _ in range(120 if tier == "quick" else 300):
            f, (kreg, off, phase, idx) = rng.choice(pts)
            rva = f.regions[kreg].begin + off
            mode = rng.choice(["ip", "ra"])
            addr = base + rva + (1 if mode == "ra" else 0)
            regs = [rng.choice([rng.choice(BOUNDARY), lo + 8 * rng.below(0x100), rng.u64()]) for _ in range(16)]
            s.add("unwind U C %s %s %s %s" % (mode, hx(addr), petruth.script_regs(addr, regs), rng.choice(["S", "S", "E"])),
                  tag="pe:%s:%s:%s" % (f.shape, phase, mode))
        # every prolog / epilog instruction with all registers at the top of the address space (each of them is the
        # base of some addition there: rsp + 8, rsp + alloc, frame register + displacement)
        for f, (kreg, off, phase, idx) in pts:
            if phase not in ("epilog", "prolog") and not (tier != "quick" and rng.chance(1, 4)):
                continue
            rva = f.regions[kreg].begin + off
            for v in (M64, M64 - 7, M64 - 8, M64 - 0x40, M64 - 0x1000, (1 << 63) - 8):
                for mode in ("ip", "ra"):
                    addr = base + rva + (1 if mode == "ra" else 0)
                    # E: nothing readable; T: the top page of the address space is readable (the word at 2^64-8 included)
                    for memid in ("E", "T"):
                        s.add("unwind U C %s %s %s %s" % (mode, hx(addr), petruth.script_regs(addr, [v] * 16), memid),
                              tag="pe-top:%s:%s:%s:%s" % (f.shape, phase, mode, memid))
        # minimal but valid unwind infos (one or two codes each): every kind of step on its own, so that the last
        # addition of the step - popping the return address - is reached with the registers still at the top
        mini = {0: dict(fpreg=5, fpoff=0, ops=[(3, ("setfp",))], chain=None, prolog=3),
                1: dict(fpreg=3, fpoff=16, ops=[(4, ("setfp",)), (1, ("pop", 3))], chain=None, prolog=4),
                2: dict(fpreg=None, fpoff=0, ops=[(4, ("alloc", 8))], chain=None, prolog=4),
                3: dict(fpreg=None, fpoff=0, ops=[(1, ("mach", False))], chain=None, prolog=1),
                4: dict(fpreg=None, fpoff=0, ops=[(1, ("mach", True))], chain=None, prolog=1),
                5: dict(fpreg=None, fpoff=0, ops=[(5, ("save", 12, 0))], chain=None, prolog=5),
                6: dict(fpreg=None, fpoff=0, ops=[(1, ("pop", 5))], chain=None, prolog=1),
                7: dict(fpreg=None, fpoff=0, ops=[], chain=None, prolog=0)}
        mbase = 0x7ff700000000
        module_pe(s, "MX", mbase, mbase + 0x100000, mbase, 0x140000000, [(0x1000 + 0x40 * i, 0x1040 + 0x40 * i, i) for i in range(8)],
                  mini, 0x1000, bytes([0x90]) * 0x200)
        s.add("add U MX")
        for i in range(8):
            for v in (M64, M64 - 7, M64 - 8, M64 - 16, M64 - 24, M64 - 32, M64 - 40):
                for mode in ("ip", "ra"):
                    addr = mbase + 0x1000 + 0x40 * i + 0x20 + (1 if mode == "ra" else 0)
                    for memid in ("E", "T"):
                        s.add("unwind U C %s %s %s %s" % (mode, hx(addr), petruth.script_regs(addr, [v] * 16), memid),
                              tag="pe-mini:%d:%s:%s" % (i, mode, memid))
        out.append(("pe-valid-%d" % w, s))
    # valid Mach-O modules (programs of C02's generator), every instruction boundary, boundary-value registers
    import machotruth as mt
    from fhgen import M64
    for w in range(4 if tier == "quick" else 60):
        arch = "x86" if w % 2 == 0 else "a64"
        s = Script(arch, "may" if w % 4 < 2 else "must")
        prog = mt.make_program(rng, arch, 6)
        base = 0x100000000 + 0x10000 * rng.below(256)
        mt.module_macho(s, "M", prog, base, 0x100000000, rng, merge=rng.chance(1, 2))
        s.add("new U"); s.add("add U M"); s.add("newcache C")
        lo = 0x10000 * rng.range(1, 0xfff)
        s.mem("S", [(lo + 8 * i, rng.choice([0, lo + 8 * rng.below(0x100), rng.u64(), base + 0x1000 + rng.below(0x400)])) for i in range(0x100)])
        s.mem("E", [])
        pts = [(f, off) for f in prog["funcs"] for (off, insn, ph) in f.insns] + [(None, prog["stubs"][0]), (None, prog["helper"][0] + 4), (None, 0x10)]
        for _ in range(120 if tier == "quick" else 300):
            f, off = rng.choice(pts)
            rva = (f.start + off) if f is not None else off
            mode = rng.choice(["ip", "ra"])
            addr = base + rva + (1 if mode == "ra" else 0)
            v = lambda: rng.choice([rng.choice(BOUNDARY), lo + 8 * rng.below(0x100), rng.u64()])
            regs = s.regs_x86(addr, v(), v()) if arch == "x86" else s.regs_a64(rng.choice([M64, (1 << 48) - 1]), v(), v(), v())
            s.add("unwind U C %s %s %s %s" % (mode, hx(addr), regs, rng.choice(["S", "S", "E"])),
                  tag="macho:%s:%s:%s" % (arch, f.shape if f else "stub", mode))
        # every byte of the synthetic sections (stubs, stub helpers: rules chosen from the offset alone) and the first
        # bytes of the image, both roles
        sweep = [prog["stubs"][0] + o for o in range(0, min(0x20, prog["stubs"][1] - prog["stubs"][0]))]
        sweep += [prog["helper"][0] + o for o in range(0, min(0x40, prog["helper"][1] - prog["helper"][0]))]
        sweep += [prog["stubs"][1] - 1, prog["stubs"][1], prog["helper"][1] - 1, prog["helper"][1], 0, 1]
        for rva in sweep:
            for mode in ("ip", "ra"):
                addr = base + rva + (1 if mode == "ra" else 0)
                v = lambda: rng.choice([rng.choice(BOUNDARY), lo + 8 * rng.below(0x100)])
                regs = s.regs_x86(addr, v(), v()) if arch == "x86" else s.regs_a64(rng.choice([M64, (1 << 48) - 1]), v(), v(), v())
                s.add("unwind U C %s %s %s %s" % (mode, hx(addr), regs, rng.choice(["S", "E"])),
                      tag="macho:%s:synthetic:%s" % (arch, mode))
        out.append(("macho-valid-%d" % w, s))
    out += macho_opgrid(rng, tier)
    return out

def k_s5_dep(script, ln, impl_line, desc):
    """the panic is raised inside pe-unwind-info (unchecked register arithmetic in resolve_operation /
    resolve_offset), on a PE module"""
    return bool(impl_line) and "panic dep" in impl_line and "pe-unwind-info" in impl_line

KNOWN = {"S5_dep_pe_unwind_info": k_s5_dep}

def judge(script, impl):
    bad = []
    for ln, line in sorted(impl.items()):
        op = script.lines[ln - 1].split(" ", 1)[0]
        if op not in ("exec", "unwind", "iter", "manual", "add", "mod", "remove"):
            continue
        if line.startswith("panic") or line.startswith("hang") or "| panic" in line:
            bad.append((ln, "unwinding call did not return Ok/Err: " + line))
    return bad

def project(script, ln, line):
    return vlib.norm(line, keep_alloc=False, keep_touch=False)
