"""C13 - return addresses are looked up at address-1, instruction pointers exactly.
Oracle (independent of the model): adjacent functions / modules get distinguishable rules
(the sp delta identifies which function's rule ran)."""
import vlib, suites
from fhgen import *

RULE = ("all pairs of adjacent functions (same module) and adjacent modules with different sp deltas, three DWARF "
        "presentations, Mach-O functions (compact unwind and DWARF-deferred) whose last instruction is a call, and functions that end their image with nothing mapped behind (incl. the highest image), both architectures, probed at the boundary as return address and as instruction "
        "pointer; distinct = (arch, presentation, same-module|cross-module, address kind)")
ASSUMPTIONS = ["stack reader is a pure partial function"]
TRUSTED_BASE = ["modelled not verified: gimli FDE/row selection"]

def delta_row(arch, k):
    return suites.std_row(arch, "frameless", k)

def generate(rng, tier):
    out = []
    reps = 4 if tier == "quick" else 60
    for arch in ("x86", "a64"):
        gran = 8 if arch == "x86" else 16
        for rep in range(reps):
            s = Script(arch)
            base_stack = 0x7000
            s.mem("S", [(base_stack + 8 * i, 0x50000 + i) for i in range(64)])       # 0x7100 / 0x7108: frame record for the fallback
            s.add("new U"); s.add("newcache C")
            mi = 0
            probes = []
            pos = 0x10000 + 0x1000 * rng.below(16)
            for pres in ("hdr", "eh", "debug"):
                # module A: functions F(k=2), G(k=3) adjacent; module B adjacent to A with H(k=4)
                lenF, lenG, lenH = rng.choice([1, 2, 0x10, 0x40]), rng.choice([1, 2, 0x10]), rng.choice([1, 0x20])
                bs = rng.choice([0, 0x100000000])
                a0 = pos
                # J: one function whose CFI changes at offset rJ (a cold block after a noreturn call): the boundary between
                # two ROWS of one FDE is looked up the same way
                rJ = rng.choice([1, 2, 0x10])
                fA = [dict(start=bs + 0x100, len=lenF, rows=[(0, delta_row(arch, 2))]),
                      dict(start=bs + 0x100 + lenF, len=lenG, rows=[(0, delta_row(arch, 3))]),
                      dict(start=bs + 0x80, len=rJ + 4, rows=[(0, delta_row(arch, 6)), (rJ, delta_row(arch, 7))])]
                endA = a0 + 0x100 + lenF + lenG
                # the mapped range of module A starts exactly at its first function (J), 0x80 above the base address
                s.module_dwarf("M%d" % mi, a0 + 0x80, endA, a0, bs, pres, fA, rng, shuffle=rng.chance(1, 2))
                s.add("add U M%d" % mi); mi += 1
                fB = [dict(start=bs + 0, len=lenH, rows=[(0, delta_row(arch, 4))])]
                s.module_dwarf("M%d" % mi, endA, endA + lenH + 0x10, endA, bs, pres, fB, rng)
                s.add("add U M%d" % mi); mi += 1
                e1 = a0 + 0x100 + lenF          # F|G boundary (same module)
                e2 = endA                       # G|H boundary (module boundary)
                probes += [(pres, "same", e1, 2, 3), (pres, "cross", e2, 3, 4), (pres, "row", a0 + 0x80 + rJ, 6, 7),
                           (pres, "start", a0 + 0x80, None, 6)]
                # module C: its last function runs to the very end of the image and nothing is mapped behind it
                # (a noreturn call as the last instruction of the image; for the last C, of the whole address space known)
                c0 = endA + lenH + 0x10 + 0x100 * rng.range(1, 4)
                lenK = rng.choice([1, 2, 0x10])
                fC = [dict(start=bs + 0x20, len=lenK, rows=[(0, delta_row(arch, 5))])]
                s.module_dwarf("M%d" % mi, c0, c0 + 0x20 + lenK, c0, bs, pres, fC, rng)
                s.add("add U M%d" % mi); mi += 1
                probes.append((pres, "last", c0 + 0x20 + lenK, 5, None))
                pos = c0 + 0x20 + lenK + 0x1000 * rng.range(1, 4)
            # an image of more than 4 GiB whose function L ends exactly 4 GiB above the base address: as a return address
            # that boundary still belongs to L (looked up at base + 2^32 - 1, the last address a 32-bit relative address
            # reaches); as an instruction pointer it lies beyond reach - no usable information (seeded change C13-11
            # converted the raw address before taking one off)
            big = 0x1000000000 + (1 << 34) * (rep % 4)
            lenL = rng.choice([1, 2, 0x10])
            fL = [dict(start=(1 << 32) - lenL, len=lenL, rows=[(0, delta_row(arch, 9))])]
            s.module_dwarf("M%d" % mi, big, big + (1 << 32) + 0x1000, big, 0, ("hdr", "eh", "debug")[rep % 3], fL, rng)
            s.add("add U M%d" % mi); mi += 1
            probes.append((("hdr", "eh", "debug")[rep % 3], "4gib", big + (1 << 32), 9, None))
            for (pres, kind, e, kF, kG) in probes:
                for ak, k in (("ra", kF), ("ip", kG)):
                    if k is None:
                        # no module there: the frame-pointer fallback (new sp = fp + 16)
                        sp = base_stack + 8 * rng.range(0, 8) * (1 if arch == "x86" else 2)
                        regs = s.regs_x86(e, sp, 0x7100) if arch == "x86" else s.regs_a64(M64, 0x4444, sp, 0x7100)
                        ln = s.add("unwind U C %s %s %s S" % (ak, hx(e), regs), tag="%s:%s:%s:%s" % (arch, pres, kind, ak))
                        s.meta[ln] = {"sp": sp, "delta": 0x7110 - sp, "arch": arch}
                        continue
                    sp = base_stack + 8 * rng.range(0, 8) * (1 if arch == "x86" else 2)
                    regs = s.regs_x86(e, sp, 0x7100) if arch == "x86" else s.regs_a64(M64, 0x4444, sp, 0x7100)
                    ln = s.add("unwind U C %s %s %s S" % (ak, hx(e), regs), tag="%s:%s:%s:%s" % (arch, pres, kind, ak))
                    s.meta[ln] = {"sp": sp, "delta": gran * k, "arch": arch}
            out.append(("adjacent-%s-%d" % (arch, rep), s))
    # PE x64: adjacent functions with different allocations; the boundary as a return address belongs to the function
    # before it (its last instruction is the call), as an instruction pointer to the function after it (first prolog byte)
    for rep in range(2 if tier == "quick" else 20):
        s = Script("x86")
        base_stack = 0x7000
        s.mem("S", [(base_stack + 8 * i, 0x50000 + i) for i in range(64)])
        s.add("new U"); s.add("newcache C")
        pbase = 0x7ff600000000 + 0x10000 * rng.below(256)
        l0, l1, l2 = rng.choice([8, 0x10, 0x30]), rng.choice([8, 0x20]), rng.choice([8, 0x10])
        gap = rng.choice([1, 0x10])
        b0 = 0x1000; b1 = b0 + l0; b2 = b1 + l1 + gap; e2 = b2 + l2
        ks = [4, 6, 8]
        uinfos = {i: dict(fpreg=None, fpoff=0, ops=[(4, ("alloc", 8 * k))], chain=None, prolog=4) for i, k in enumerate(ks)}
        # the image ends with its last function
        module_pe(s, "MP", pbase, pbase + e2, pbase, 0x140000000, [(b0, b1, 0), (b1, b1 + l1, 1), (b2, e2, 2)], uinfos,
                  0x1000, bytes([0x90]) * (e2 - 0x1000))
        s.add("add U MP")
        pp = [("same", "ra", b1, 8 * ks[0] + 8), ("same", "ip", b1, 8),
              ("gap", "ra", b1 + l1, 8 * ks[1] + 8), ("gap", "ip", b1 + l1, 8),
              ("last", "ra", e2, 8 * ks[2] + 8),
              ("inside", "ra", b1 + 5, 8 * ks[1] + 8), ("inside", "ip", b1 + 4, 8 * ks[1] + 8)]
        for kind, ak, rva, delta in pp:
            for _ in range(2):
                sp = base_stack + 8 * rng.range(0, 8)
                regs = s.regs_x86(pbase + rva, sp, 0x7100)
                ln = s.add("unwind U C %s %s %s S" % (ak, hx(pbase + rva), regs), tag="x86:pe:%s:%s" % (kind, ak))
                s.meta[ln] = {"sp": sp, "delta": delta, "arch": "x86"}
        out.append(("adjacent-pe-%d" % rep, s))
    # Mach-O: functions whose last instruction is a call (compact unwind entries and, for DWARF-deferred entries, the FDE
    # rows are both looked up at the return address minus one); the return address is the start of the next function
    import machotruth as mt
    for arch in ("x86", "a64"):
        for rep in range(3 if tier == "quick" else 30):
            s = Script(arch)
            # every other program: the LAST function of __text ends in a call and __stubs begins at its end (C13-7)
            prog = mt.make_program(rng, arch, force_last_noreturn=(rep % 2 == 0))
            lastf = prog["funcs"][-1] if getattr(prog["funcs"][-1], "noreturn", False) else None
            nr = [f for f in prog["funcs"] if getattr(f, "noreturn", False)]
            if not nr:
                continue
            base = 0x100000000 + 0x10000 * rng.below(256)
            mt.module_macho(s, "M", prog, base, 0x100000000, rng, merge=(rep % 2 == 0))
            s.add("new U"); s.add("add U M")
            found = 0
            for attempt in range(400):
                if found >= (8 if tier == "quick" else 24):
                    break
                sc = mt.make_scenario(rng, prog, base, 0x7ffe0000 + 0x1000 * rng.below(8), rng.range(2, 5))
                fr = sc["frames"]
                thru = [x for x in fr if x["kind"] == "caller" and getattr(x["func"], "noreturn", False)
                        and x["pc"] == base + x["func"].start + x["func"].length]
                if not thru or (found % 2 == 0 and attempt < 300 and not any(x["func"].dwarf for x in thru)):
                    continue
                if lastf is not None and found in (1, 3) and attempt < 300 and not any(x["func"] is lastf for x in thru):
                    continue          # ... and two of them through the function that __stubs follows          # every other scenario goes through a DWARF-deferred function of this kind
                found += 1
                mid = "S%d" % attempt
                s.mem(mid, sorted(sc["mem"].items()))
                mask = (1 << 48) - 1
                x0 = fr[0]
                regs = s.regs_x86(x0["pc"], x0["sp"], x0["fp"]) if arch == "x86" else s.regs_a64(mask, x0["lr"], x0["sp"], x0["fp"])
                s.add("newcache C")
                ln = s.add("trace U C %s %s %s %d" % (hx(x0["pc"]), regs, mid, len(fr) + 3), tag="%s:macho-noreturn:%s" % (arch, x0["func"].shape))
                k2 = arch == "x86" and x0["insn"] == "jmp" and x0["index"] > 0 and x0["func"].insns[x0["index"] - 1][1].kind == "add"
                from props import C02 as _c02
                if not k2 and not any(_c02.big_bp(x["func"]) for x in fr):   # (known findings S19 / S21 of C02: not this property's subject)
                    s.meta[ln] = {"chain": [[(x["ra"] & mask) if arch == "a64" else x["ra"], x["caller"][0], x["caller"][1]] for x in fr[:-1]]}
            out.append(("macho-noreturn-%s-%d" % (arch, rep), s))
    return out

def judge(script, impl):
    bad = []
    for ln, m in script.meta.items():
        line = impl.get(ln)
        if "chain" in m:
            if line is None:
                continue
            items = [x.strip() for x in line[5:].split("|")]
            exp = ["ok ra 0x%x sp=0x%x fp=0x%x" % tuple(c) for c in m["chain"]] + ["ok none"]
            if items[1:] != exp:
                bad.append((ln, "walk through a function that ends in a call differs from the true chain:\ngot : %s\ntrue: %s" % (items[1:], exp)))
            continue
        o = vlib.outcome(line)
        rg = vlib.regs_of(line)
        if o[0] != "ok" or o[1] != "some" or rg is None:
            bad.append((ln, "boundary probe did not unwind: %s" % line)); continue
        new_sp = rg[8] if m["arch"] == "x86" else rg[2]
        if new_sp - m["sp"] != m["delta"]:
            bad.append((ln, "wrong function's rule at the boundary: sp delta %d, expected %d (%s)" % (new_sp - m["sp"], m["delta"], line)))
    return bad

def project(script, ln, line):
    return vlib.norm(line, keep_alloc=False)
