"""C04 - frame-pointer fallback and leaf assumption. Oracle independent of the model: the platform
conventions computed in Python (return address at [fp+8], caller fp at [fp], caller sp = fp+16;
leaf = return address on top of the stack / in lr) for every reason the statement enumerates."""
import vlib, suites
from fhgen import *

RULE = ("decision matrix: {no module, module without sections, own index that cannot be built, FDE gap / before first / "
        "after last FDE, no PE function-table entry, PE on aarch64, address outside __unwind_info} x {first, caller} x {x86_64, aarch64} x three presentations, plus frame-pointer chains of "
        "length 0..6 with varied spacing/alignment ending in the architecture's null marker or a null return address; "
        "distinct = (arch, reason, first/caller | chain length)")
ASSUMPTIONS = ["stack reader is a pure partial function", "stack reader returns values as given"]
TRUSTED_BASE = ["modelled not verified: gimli"]

def expect_fp(arch, sp, fp, lr, mem, mask=M64):
    if arch == "x86":
        if fp == 0:
            return ("none",)
        if fp + 16 > M64 or fp + 16 <= sp or fp not in mem or (fp + 8) not in mem:
            return None
        ra = mem[fp + 8]
        return ("none",) if ra == 0 else ("some", ra, fp + 16, mem[fp])
    if fp + 16 > M64 or (fp + 8) not in mem or fp not in mem:
        return None
    nf = mem[fp]
    if nf == 0:
        return ("none",)
    if nf <= fp or fp + 16 <= sp:
        return None
    ra = mem[fp + 8] & mask
    return ("none",) if ra == 0 else ("some", ra, fp + 16, nf)

def expect_leaf(arch, sp, fp, lr, mem, mask=M64):
    if arch == "x86":
        if sp not in mem or sp + 8 > M64:
            return None
        ra = mem[sp]
        return ("none",) if ra == 0 else ("some", ra, sp + 8, fp)
    ra = lr & mask
    return ("none",) if ra == 0 else ("some", ra, sp, fp)

def generate(rng, tier):
    out = []
    reps = 8 if tier == "quick" else 200
    for rep in range(reps):
        arch = "x86" if rep % 2 == 0 else "a64"
        s = Script(arch, "may" if rep % 4 < 2 else "must")
        base = 0x7000
        memd = {}
        for i in range(96):
            c = rng.below(10)
            memd[base + 8 * i] = 0 if c == 0 else (0x20000 + rng.below(0x8000) if c < 6 else base + 8 * rng.below(110))
        s.mem("S", sorted(memd.items()))
        reasons = {}
        # modules: none-data, broken index (FDE start below the image base), gapped FDE sets
        s.module_none("MN", 0x100000, 0x101000, 0x100000, 0)
        reasons["nodata"] = (0x100000, 0x101000)
        mi = 0
        for pres in ("eh", "debug"):
            f = [dict(start=0x10, len=0x100, rows=[(0, suites.std_row(arch, "frameless", 2))])]
            lo = 0x200000 + 0x10000 * mi
            s.module_dwarf("MB%d" % mi, lo, lo + 0x1000, lo, 0x100000000, pres, f, rng)   # start < base_svma
            reasons["badindex-" + pres] = (lo, lo + 0x1000)
            mi += 1
        gaps = {}
        for j, pres in enumerate(("hdr", "eh", "debug")):
            lo = 0x300000 + 0x10000 * j
            fd = [dict(start=0x100, len=0x40, rows=[(0, suites.std_row(arch, "frameless", 3))]),
                  dict(start=0x200, len=0x40, rows=[(0, suites.std_row(arch, "frameless", 4))])]
            s.module_dwarf("MG%d" % j, lo, lo + 0x1000, lo, 0, pres, fd, rng, shuffle=True)
            gaps[pres] = [lo + 0x10, lo + 0xff, lo + 0x140, lo + 0x1ff, lo + 0x240, lo + 0x800]
        # a PE module: addresses without a function-table entry (x86_64: leaf in EVERY frame); PE on aarch64
        pe_lo = 0x400000
        pe_uinfos = {0: dict(fpreg=None, fpoff=0, ops=[(4, ("alloc", 40))], chain=None, prolog=4)}
        module_pe(s, "MP", pe_lo, pe_lo + 0x10000, pe_lo, 0x140000000, [(0x1000, 0x1040, 0), (0x1100, 0x1180, 0)], pe_uinfos,
                  0x1000, bytes([0x90]) * 0x200)
        # a PE image whose function table is EMPTY (nothing but leaf functions): it is still a PE image
        pe0_lo = 0x480000
        # (every other time without any .xdata / .rdata section: the function table alone makes it a PE image)
        module_pe(s, "MP0", pe0_lo, pe0_lo + 0x10000, pe0_lo, 0x140000000, [], {}, 0x1000, bytes([0x90]) * 0x100, no_xdata=(rep % 4 < 2))
        # a Mach-O module: addresses its __unwind_info does not cover (before the first entry, after the sentinel)
        import machotruth as mt
        mprog = mt.make_program(rng, arch, 4)
        mm_lo = 0x500000
        mt.module_macho(s, "MM", mprog, mm_lo, 0x100000000, rng)
        # an image of 8 GiB: 4 GiB and more above its base nothing can be looked up (32-bit relative addresses), so
        # addresses there have no usable unwind information although the first 4 GiB repeat below them
        far_lo = 0x1000000000
        fd = [dict(start=0x100, len=0x400, rows=[(0, suites.std_row(arch, "frameless", 5))])]
        s.module_dwarf("MF", far_lo, far_lo + (1 << 33), far_lo, 0, ["hdr", "eh", "debug"][rep % 3], fd, rng)
        # the same Mach-O image registered WITHOUT its text bytes: a first frame inside a function that has no unwind
        # info (opcode 0) is still a frameless leaf
        mm2_lo = 0x580000
        mt.module_macho(s, "MM2", mprog, mm2_lo, 0x100000000, rng, with_text=False)
        s.add("new U")
        for mid in ["MN", "MP", "MP0", "MM", "MM2", "MF"] + ["MB%d" % i for i in range(mi)] + ["MG%d" % j for j in range(3)]:
            s.add("add U " + mid)
        probes = [("nomodule", a) for a in (0x5000, 0x50, 0xfffff, 0x101000, 0x9999999)]
        probes += [("nodata", 0x100000 + rng.below(0x1000)) for _ in range(3)]
        for k, (lo, hi) in reasons.items():
            if k.startswith("badindex"):
                probes += [(k, lo + rng.below(0x1000)) for _ in range(3)]
        for pres, addrs in gaps.items():
            probes += [("gap-" + pres, a) for a in addrs]
        pe_reason = "pe-noentry" if arch == "x86" else "pe-a64"
        probes += [(pe_reason, pe_lo + a) for a in (0x10, 0xfff, 0x1040, 0x10ff, 0x1180, 0x5000)]
        if arch == "a64":
            probes += [(pe_reason, pe_lo + 0x1010), (pe_reason, pe_lo + 0x1120)]
        probes += [(pe_reason, pe0_lo + a) for a in (0x0, 0x1000, 0x1040, 0xffff)]
        probes += [("macho-outside", mm_lo + a) for a in (0x10, 0x800, 0xfff, mprog["end"], mprog["end"] + 0x40)]
        # the first address BEHIND an image belongs to no module (ranges are end-exclusive), whatever the image would
        # have said about it: images with data, with nothing mapped behind them
        probes += [("nomodule", 0x300000 + 0x10000 * j + 0x1000) for j in range(3)]
        probes += [("nomodule", pe_lo + 0x10000), ("nomodule", mm_lo + mprog["end"] + 0x100)]
        for f in mprog["funcs"]:
            if f.opcode == 0 and not f.dwarf and f.shape == "null-leaf":
                probes += [("macho-null", mm2_lo + f.start + o) for o in (0, 1, f.length - 1)]
                probes += [("macho-null", mm_lo + f.start + o) for o in (1,)]
        probes += [("toofar", far_lo + (1 << 32) + a) for a in (0x100, 0x180, 0x4ff, (1 << 32) - 0x1000 + 0x100)]
        for reason, a in probes:
            for first in ((1,) if reason == "macho-null" else (1, 0)):
                for _ in range(2):
                    sp = base + 8 * rng.range(0, 40)
                    fp = rng.choice([base + 8 * rng.range(0, 90), 0, base + 8 * rng.range(0, 90), base + 4])
                    lr = rng.choice([0x33330, 0, 0x44440])
                    kind = "ip" if first else "ra"
                    addr = a if first else a + 1
                    regs = s.regs_x86(a, sp, fp) if arch == "x86" else s.regs_a64(M64, lr, sp, fp)
                    s.add("newcache F")
                    ln = s.add("unwind U F %s %s %s S" % (kind, hx(addr), regs), tag="%s:%s:%d" % (arch, reason.split("-")[0], first))
                    s.meta[ln] = {"reason": reason, "first": first, "sp": sp, "fp": fp, "lr": lr, "arch": arch}
        # the same uncovered address in both roles through ONE cache, in both orders: what is cached for it must be
        # right for a first frame and for a caller frame alike
        for pres, addrs in gaps.items():
            for order in ((1, 0), (0, 1)):
                a = rng.choice(addrs)
                s.add("newcache F")
                for first in order + order:
                    sp = base + 8 * rng.range(0, 40)
                    fp = base + 8 * rng.range(0, 90)
                    lr = rng.choice([0x33330, 0x44440])
                    regs = s.regs_x86(a, sp, fp) if arch == "x86" else s.regs_a64(M64, lr, sp, fp)
                    ln = s.add("unwind U F %s %s %s S" % ("ip" if first else "ra", hx(a if first else a + 1), regs),
                               tag="%s:gap-roles:%d%d:%d" % (arch, order[0], order[1], first))
                    s.meta[ln] = {"reason": "gap-" + pres, "first": first, "sp": sp, "fp": fp, "lr": lr, "arch": arch}
        # frame pointer chains
        for ch in range(6):
            depth = rng.range(0, 6)
            cb = 0x9000 + 0x400 * ch
            pairs = {}
            fp = cb + 8 * rng.range(0, 3)
            fps = []
            for d in range(depth):
                nxt = fp + 16 + 8 * rng.range(0, 5)
                fps.append(fp)
                pairs[fp] = nxt if d < depth - 1 else 0
                pairs[fp + 8] = 0x20000 + 0x10 * d + ch
                fp = nxt
            null_ra_at = rng.range(0, depth) if depth and rng.chance(1, 3) else None
            if null_ra_at is not None and null_ra_at < depth:
                pairs[fps[null_ra_at] + 8] = 0
            s.mem("CH%d" % ch, sorted(pairs.items()))
            first_fp = fps[0] if fps else 0
            regs = s.regs_x86(0x5555, cb - 0x40, first_fp) if arch == "x86" else s.regs_a64(M64, 0x6660, cb - 0x40, first_fp)
            s.add("newcache F")
            ln = s.add("trace U F 0x5555 %s CH%d %d" % (regs, ch, depth + 4), tag="%s:chain:%d" % (arch, depth))
            s.meta[ln] = {"chain": [[f, pairs[f], pairs[f + 8]] for f in fps], "arch": arch, "lr": 0x6660, "mem": "CH%d" % ch}
        out.append(("fallback-%s-%d" % (arch, rep), s))
    # a search table with entries that do not lead to an FDE (they point at the CIE, into the middle of an entry, at
    # the terminator, behind the section): for the addresses they claim there is no usable unwind information -
    # frame-pointer convention in every frame. Judged only: the model has no notion of table entries without an FDE.
    for ai, arch in enumerate(("x86", "a64")):
        s = Script(arch, "may"); s.nomodel = True
        base = 0x7000
        memd = {}
        for i in range(96):
            c = rng.below(10)
            memd[base + 8 * i] = 0 if c == 0 else (0x20000 + rng.below(0x8000) if c < 6 else base + 8 * rng.below(110))
        s.mem("S", sorted(memd.items()))
        probes = []
        for hi, hdr_enc in enumerate(("abs8", "rel")):
            lo = 0x600000 + 0x10000 * hi
            fd = [dict(start=0x100, len=0x40, rows=[(0, suites.std_row(arch, "frameless", 3))]),
                  dict(start=0x300, len=0x40, rows=[(0, suites.std_row(arch, "frameless", 4))])]
            # CIE at 0; 4 = inside the CIE; 0x7ff0 = behind the section
            extra = [(0x200, 0), (0x240, 4), (0x400, 0x7ff0)]
            s.module_dwarf("MH%d" % hi, lo, lo + 0x1000, lo, 0, "hdr", fd, rng, hdr_enc=hdr_enc, hdr_extra=extra)
            probes += [("hdr-nofde", lo + a) for a in (0x200, 0x210, 0x23f, 0x240, 0x2ff, 0x400, 0x800)]
            probes += [("gap-hdr", lo + a) for a in (0x140, 0x1ff, 0x340)]         # control: real FDEs still decide their gaps
        # a header WITHOUT search table (count and table encodings omitted): nothing can be looked up through it, every
        # address of the image is without usable unwind information
        lo = 0x620000
        fd = [dict(start=0x100, len=0x40, rows=[(0, suites.std_row(arch, "frameless", 3))])]
        s.module_dwarf("MH2", lo, lo + 0x1000, lo, 0, "hdr", fd, rng, hdr_enc="notable")
        probes += [("hdr-notable", lo + a) for a in (0x100, 0x120, 0x13f, 0x140, 0x800)]
        # a Mach-O image whose __unwind_info header and first-level index are fine but whose second-level pages cannot
        # be read (unknown page kind): its functions have no usable unwind information - frame-pointer convention in
        # every frame, NOT the leaf assumption made for addresses outside the table (seeded change C04-12 folded the two)
        import machotruth as mt, struct as _st
        mprog = mt.make_program(rng, arch, 4)
        lo = 0x700000
        mt.module_macho(s, "MBP", mprog, lo, 0x100000000, rng)
        head, bview = s.lines[-1].split(" B ", 1)
        bt = bview.split(" ")
        k = bt.index("__unwind_info")
        ui = bytearray(bytes.fromhex(bt[k + 1]))
        idx_off, idx_cnt = _st.unpack_from("<II", ui, 20)
        for e in range(idx_cnt - 1):
            page = _st.unpack_from("<I", ui, idx_off + 12 * e + 4)[0]
            if page:
                _st.pack_into("<I", ui, page, 7)          # neither 2 (regular) nor 3 (compressed)
        bt[k + 1] = bytes(ui).hex()
        s.lines[-1] = head.split(" A ", 1)[0] + " A none B " + " ".join(bt)
        for f in sorted(mprog["funcs"], key=lambda f: f.start)[:6]:
            probes += [("macho-badpage", lo + f.start + o) for o in (0, 1 if arch == "x86" else 4, f.length - (1 if arch == "x86" else 4))]
        s.add("new U"); s.add("add U MH0"); s.add("add U MH1"); s.add("add U MH2"); s.add("add U MBP")
        for reason, a in probes:
            for first in (1, 0):
                for _ in range(2):
                    sp = base + 8 * rng.range(0, 40)
                    fp = rng.choice([base + 8 * rng.range(0, 90), base + 8 * rng.range(0, 90), base + 8 * rng.range(0, 90), 0])
                    lr = rng.choice([0x33330, 0x44440])
                    regs = s.regs_x86(a, sp, fp) if arch == "x86" else s.regs_a64(M64, lr, sp, fp)
                    s.add("newcache F")
                    for rep2 in range(2):
                        ln = s.add("unwind U F %s %s %s S" % ("ip" if first else "ra", hx(a if first else a + 1), regs),
                                   tag="%s:%s:%d:%s" % (arch, reason, first, "warm" if rep2 else "fresh"))
                        s.meta[ln] = {"reason": reason, "first": first, "sp": sp, "fp": fp, "lr": lr, "arch": arch}
        out.append(("hdr-nofde-%s" % arch, s))
    return out

def mem_of(script, mid):
    for l in script.lines:
        t = l.split()
        if len(t) > 2 and t[0] == "mem" and t[1] == mid:
            return {int(t[3 + 2 * i], 16): int(t[4 + 2 * i], 16) for i in range(int(t[2]))}
    return {}

def judge(script, impl):
    bad = []
    memS = mem_of(script, "S")
    for ln, m in script.meta.items():
        line = impl.get(ln)
        if line is None:
            continue
        arch = m["arch"]
        if "chain" in m:
            items = [x.strip() for x in line[5:].split("|")]
            ch = m["chain"]
            exp = ["ip"]
            if arch == "x86":
                # the pc frame, then every record's return address until bp = 0 (or a null return address)
                for (f, nf, ra) in ch:
                    if ra == 0:
                        break
                    exp.append(ra)
            else:
                # no module at all: the frame pointer convention applies to the first frame too;
                # records are reported until the SAVED fp is null (that record's lr is not reported)
                for (f, nf, ra) in ch:
                    if nf == 0 or ra == 0:
                        break
                    exp.append(ra)
                if not ch:
                    exp = None       # fp = 0: nothing readable at [0]
            if exp is None:
                continue
            got = []
            for it in items:
                t = it.split()
                if t[0] == "ok" and t[1] in ("ip", "ra"):
                    got.append(int(t[2], 16))
            got = ["ip"] + got[1:]
            if got != exp or items[-1] != "ok none":
                bad.append((ln, "frame-pointer chain %s: expected frames %s then Ok(None), got %s" % (ch, [hex(x) if x != "ip" else x for x in exp], line)))
            continue
        o = vlib.outcome(line); rg = vlib.regs_of(line)
        reason, first = m["reason"], m["first"]
        sp, fp, lr = m["sp"], m["fp"], m["lr"]
        if (reason.startswith("gap") and first) or reason == "pe-noentry" or (reason in ("macho-outside", "macho-null") and first):
            exp = expect_leaf(arch, sp, fp, lr, memS)
        else:
            exp = expect_fp(arch, sp, fp, lr, memS)
        if exp is None:
            continue        # the convention itself is undefined here (unreadable / backwards): other properties
        if exp[0] == "none":
            if o[:2] != ("ok", "none"):
                bad.append((ln, "%s first=%d: expected Ok(None), got %s" % (reason, first, line)))
            continue
        _, ra, nsp, nfp = exp
        got = (o[2] if o[:2] == ("ok", "some") else None,
               (rg[8] if arch == "x86" else rg[2]) if rg else None, (rg[7] if arch == "x86" else rg[3]) if rg else None)
        if arch == "x86" and nsp == sp and ra == (rg[0] if False else None):
            continue
        if got != (ra, nsp, nfp):
            # no-progress guard (C10) is not judged here
            if o[0] == "err" and o[1] == "DidNotAdvance":
                continue
            bad.append((ln, "%s first=%d sp=%#x fp=%#x: convention gives ra=%#x sp=%#x fp=%#x, got %s" % (reason, first, sp, fp, ra, nsp, nfp, line)))
    return bad

def project(script, ln, line):
    return vlib.norm(line, keep_alloc=False)
