"""C10 - progress and termination. Judge on the real outputs: the `trace` operation records
(address, sp, fp) after every step of a hand-written walk; over the caller-frame steps sp must not
decrease, no success may leave sp and address unchanged, no state may repeat, and the walk must end
within a budget derived from the size of the readable memory."""
import vlib, suites
from fhgen import *

RULE = ("adversarial walks: self-referential and backward frame-pointer chains, zero-size frames, rows with register / "
        "expression return addresses, random DWARF worlds with dense stacks full of in-window pointers; three "
        "presentations, both architectures; distinct = (arch, scenario class, outcome class of the walk)")
ASSUMPTIONS = ["stack reader is a pure partial function",
               "PE generic path (machine frames, frame-register restores) is the known finding S9b once PE is modelled"]
TRUSTED_BASE = ["modelled not verified: gimli"]

def adversarial_rows(arch):
    R = ARCH_REGS[arch]
    rows = [
        dict(cfa=("r", R["sp"], 0), fp=("reg", R["ra"]), ra=("reg", R["fp"])),          # S9a shape
        dict(cfa=("r", R["sp"], 0), fp=("s",), ra=("o", 0)),
        dict(cfa=("r", R["sp"], 0), fp=("s",), ra=("s",)),
        dict(cfa=("r", R["fp"], 0), fp=("o", 0), ra=("o", 8)),
        dict(cfa=("r", R["fp"], 16), fp=("o", -16), ra=("o", -8)),
        dict(cfa=("r", R["sp"], 8 if arch == "x86" else 16), fp=("s",), ra=("reg", R["fp"])),
        dict(cfa=("e", [("breg", R["sp"], 0)]), fp=("s",), ra=("ve", [("breg", R["fp"], 0)])),
        dict(cfa=("e", [("breg", R["fp"], -8)]), fp=("ve", [("breg", R["sp"], 0)]), ra=("e", [("breg", R["sp"], 0)])),
        dict(cfa=("r", R["sp"], -16), fp=("s",), ra=("o", 8)),
        dict(cfa=("r", R["sp"], 8 if arch == "x86" else 16), fp=("o", -8 if arch == "x86" else -16), ra=("vo", 0)),
        dict(cfa=("r", R["sp"], 0), fp=("s",), ra=("o", 8)),                              # zero-size frame, other slot
        dict(cfa=("r", R["sp"], 0), fp=("s",), ra=("o", -8)),                             # zero-size frame as a compressed rule (x86_64: the word below rsp)
    ]
    return rows

def generate(rng, tier):
    out = []
    reps = 10 if tier == "quick" else 300
    for rep in range(reps):
        arch = "x86" if rep % 2 == 0 else "a64"
        s = Script(arch)
        rows = adversarial_rows(arch)
        rng.shuffle(rows)
        fdes = []
        for i, r in enumerate(rows):
            # every other FDE leaves a gap (addresses +0xc0..+0xff are covered by no FDE)
            fdes.append(dict(start=0x1000 + 0x100 * i, len=0x100 if i % 2 else 0xc0, rows=[(0, r), (0x80, suites.rand_row(rng, arch))]))
        pres = ["hdr", "eh", "debug"][rep % 3]
        s.module_dwarf("M", 0x10000, 0x10000 + 0x1000 + 0x100 * len(rows) + 0x100, 0x10000, 0, pres, fdes, rng, shuffle=True)
        s.add("new U"); s.add("add U M")
        base, nw = 0x7000, 64
        code = [0x11000 + 0x100 * i + rng.choice([1, 0x10, 0x81, 0x90, 0xc1, 0xe0]) for i in range(len(rows))]
        for mi in range(4):
            pairs = []
            for i in range(nw):
                a = base + 8 * i
                c = rng.below(10)
                if c < 4:
                    v = rng.choice(code)
                elif c < 8:
                    v = base + 8 * rng.below(nw)          # pointers into the window, forwards and backwards
                elif c == 8:
                    v = a                                   # self reference
                else:
                    v = 0
                pairs.append((a, v))
            if mi % 2 == 1:
                # two frame records pointing at each other, each with a code address as return address
                d = dict(pairs)
                b1, b2 = base + 8 * 10, base + 8 * 40
                d[b1] = b2; d[b2] = b1; d[b1 + 8] = rng.choice(code); d[b2 + 8] = rng.choice(code)
                pairs = sorted(d.items())
            # two zero-size frames that hand the walk to each other: [sp] names the function whose row reads [sp+8] and
            # [sp+8] the one whose row reads [sp] (sp never moves; only the first step may do that)
            d = dict(pairs)
            ia = [i for i, r in enumerate(rows) if r["cfa"] == ("r", ARCH_REGS[arch]["sp"], 0) and r["ra"] == ("o", 0)][0]
            ib = [i for i, r in enumerate(rows) if r["cfa"] == ("r", ARCH_REGS[arch]["sp"], 0) and r["ra"] == ("o", 8)][0]
            pp = base + 8 * 20
            d[pp] = 0x11000 + 0x100 * ib + 0x21; d[pp + 8] = 0x11000 + 0x100 * ia + 0x31
            pairs = sorted(d.items())
            s.mem("W%d" % mi, pairs)
            for pc0 in (0x11000 + 0x100 * ia + 0x11, 0x11000 + 0x100 * ib + 0x11):
                regs = s.regs_x86(pc0, pp, 0) if arch == "x86" else s.regs_a64(M64, 0x11000 + 0x100 * ia + 0x41, pp, 0)
                s.add("newcache F")
                ln = s.add("trace U F %s %s W%d %d" % (hx(pc0), regs, mi, 40), tag="%s:pingpong" % arch)
                s.meta[ln] = {"budget": 36, "arch": arch}
            # a first frame that names itself: a zero-size frame whose return-address slot holds the pc (x86_64: the
            # word below rsp; aarch64: lr = pc with an unmoved sp) - the very first step may not repeat its state either
            iz = [i for i, r in enumerate(rows) if r["cfa"] == ("r", ARCH_REGS[arch]["sp"], 0) and r["ra"] == ("o", -8)][0]
            izs = [i for i, r in enumerate(rows) if r["cfa"] == ("r", ARCH_REGS[arch]["sp"], 0) and r["ra"] == ("s",)][0]
            for (i0, tagz) in ((iz, "selfslot"), (izs, "selflr")):
                pcz = 0x11000 + 0x100 * i0 + 0x15
                dz = dict(pairs); dz[pp + 64 - 8] = pcz
                s.mem("Z%d%s" % (mi, tagz), sorted(dz.items()))
                regs = s.regs_x86(pcz, pp + 64, 0) if arch == "x86" else s.regs_a64(M64, pcz, pp + 64, 0)
                s.add("newcache F")
                ln = s.add("trace U F %s %s Z%d%s %d" % (hx(pcz), regs, mi, tagz, 8), tag="%s:%s" % (arch, tagz))
                s.meta[ln] = {"budget": 8, "arch": arch}
            for st in range(6):
                pc = rng.choice(code) - 1
                sp = base + 8 * rng.below(nw)
                fp = rng.choice([base + 8 * rng.below(nw), sp, 0, base + 8 * 10, base + 8 * 40])
                regs = s.regs_x86(pc, sp, fp) if arch == "x86" else s.regs_a64(M64, rng.choice(code), sp, fp)
                s.add("newcache F")
                ln = s.add("trace U F %s %s W%d %d" % (hx(pc), regs, mi, 4 * nw + 16), tag="%s:adv" % arch)
                s.meta[ln] = {"budget": 4 * nw + 12, "arch": arch}
        out.append(("adversarial-%s-%d" % (arch, rep), s))
    # adversarial PE programs: frame-register restores, machine frames, zero-size frames
    from props import C14
    import petruth
    for rep in range(6 if tier == "quick" else 120):
        s = Script("x86", "may" if rep % 2 == 0 else "must")
        funcs, uinfos, text_lo, text, text_hi, probes = C14.hostile_pe(rng, "plain")
        pbase = 0x7ff600000000
        module_pe(s, "M", pbase, pbase + 0x100000, pbase, 0x140000000, [tuple(f) for f in funcs], uinfos, text_lo, text)
        s.add("new U"); s.add("add U M")
        base, nw = 0x7000, 64
        code = [pbase + b + rng.range(1, max(1, e - b - 1)) for (b, e, i) in funcs if e > b + 1] or [pbase + 0x1001]
        for mi in range(4):
            pairs = []
            for i in range(nw):
                a = base + 8 * i
                c = rng.below(10)
                v = rng.choice(code) if c < 4 else (base + 8 * rng.below(nw) if c < 8 else (a if c == 8 else 0))
                pairs.append((a, v))
            s.mem("W%d" % mi, pairs)
            for st in range(8):
                pc = rng.choice(code)
                regs = [rng.choice([base + 8 * rng.below(nw), base + 8 * rng.below(nw), 0, rng.u64()]) for _ in range(16)]
                regs[4] = base + 8 * rng.below(nw)
                s.add("newcache F")
                ln = s.add("trace U F %s %s W%d %d" % (hx(pc), petruth.script_regs(pc, regs), mi, 4 * nw + 16), tag="x86:pe-adv")
                s.meta[ln] = {"budget": 4 * nw + 12, "arch": "x86"}
        out.append(("pe-adversarial-%d" % rep, s))
    # PE frame-register restore / machine frame on self-referential and backward-pointing records
    for rep in range(4 if tier == "quick" else 60):
        s = Script("x86", "may" if rep % 2 == 0 else "must")
        pbase = 0x7ff600000000
        fp = rng.choice([5, 3, 13])
        uinfos = {0: dict(fpreg=fp, fpoff=16 * rng.below(3), ops=[(6, ("setfp",)), (2, ("pop", fp))], chain=None, prolog=6),
                  1: dict(fpreg=None, fpoff=0, ops=[(1, ("mach", False))], chain=None, prolog=1),
                  2: dict(fpreg=None, fpoff=0, ops=[(1, ("mach", True))], chain=None, prolog=1),
                  3: dict(fpreg=fp, fpoff=0, ops=[(8, ("alloc", 16)), (4, ("setfp",))], chain=None, prolog=8)}
        funcs = [(0x1000, 0x1100, 0), (0x1100, 0x1200, 1), (0x1200, 0x1300, 2), (0x1300, 0x1400, 3)]
        text = bytes([0x90]) * 0x400
        module_pe(s, "M", pbase, pbase + 0x100000, pbase, 0x140000000, funcs, uinfos, 0x1000, text)
        s.add("new U"); s.add("add U M")
        base, nw = 0x7000, 64
        code = [pbase + 0x1000 + 0x100 * k + rng.range(0x10, 0xf0) for k in range(4)]
        for mi in range(3):
            d = {}
            for i in range(nw):
                a = base + 8 * i
                c = rng.below(10)
                d[a] = rng.choice(code) if c < 4 else (base + 8 * rng.below(nw) if c < 7 else (a if c < 9 else 0))
            # a frame record that points at itself, one that points backwards, with code addresses above them
            r1, r2 = base + 8 * 20, base + 8 * 40
            foff = uinfos[0]["fpoff"]
            d[r1 - foff] = r1; d[r1 - foff + 8] = code[0]
            d[r2] = r1; d[r2 + 8] = code[3]
            # machine frames whose saved rsp is the frame itself / lies below
            m1 = base + 8 * 50
            d[m1] = code[1]; d[m1 + 24] = m1
            d[m1 + 8] = code[2]; d[m1 + 32] = m1 - 8
            # a chain of machine frames that leads DOWN the stack: the first frame may go anywhere, every
            # caller frame must refuse (two such frames pointing at each other would never end)
            mA, mB, mC = base + 8 * 58, base + 8 * 10, base + 8 * 4
            d[mA] = code[1] + 1; d[mA + 24] = mB
            d[mB] = code[1] + 2; d[mB + 24] = mC
            d[mC] = code[1] + 3; d[mC + 24] = mB
            s.mem("W%d" % mi, sorted(d.items()))
            for pc, spv, fpv in [(code[0], r1 + 64, r1), (code[0], base, r1), (code[3], base + 8, r2), (code[1], m1, 0),
                                 (code[2], m1 - 8, 0), (code[1], mA, 0), (code[1] + 5, mB, 0),
                                 (rng.choice(code), base + 8 * rng.below(nw), base + 8 * rng.below(nw))]:
                regs = [rng.choice([0, base + 8 * rng.below(nw)]) for _ in range(16)]
                regs[4] = spv; regs[fp] = fpv
                s.add("newcache F")
                ln = s.add("trace U F %s %s W%d %d" % (hx(pc), petruth.script_regs(pc, regs), mi, 40), tag="x86:pe-selfref")
                s.meta[ln] = {"budget": 36, "arch": "x86"}
        out.append(("pe-selfref-%d" % rep, s))
    # random worlds
    for rep in range(6 if tier == "quick" else 100):
        arch = "x86" if rep % 2 == 0 else "a64"
        nm, s = suites.dwarf_world(rng, arch, nmods=3, nf=5, nprobes=0)
        for l in list(s.lines):
            pass
        # add traces from random starts
        for _ in range(20):
            a = 0x10000 + rng.below(0xc0000)
            regs = suites.regs_for(s, rng, arch, a, 0x7000, 48)
            s.add("newcache F")
            ln = s.add("trace U F %s %s S %d" % (hx(a), regs, 260), tag="%s:world" % arch)
            s.meta[ln] = {"budget": 256, "arch": arch}
        out.append(("worldwalk-%s-%d" % (arch, rep), s))
    # expressions that never finish in every position a row has (CFA, register rules by address and by value): a call
    # that does not return is the plainest way for a walk not to terminate (S22; seeded change C10-12 evaluated the
    # register-rule expressions in a function of their own, without the bound)
    from props import C14 as _c14
    for name, sc in _c14.dwarf_expr_loops(rng, tier):
        out.append(("loops-" + name, sc))
    return out

def parse_trace(line):
    items = [x.strip() for x in line[5:].split("|")]
    states = []
    for it in items:
        t = it.split()
        if t[0] == "ok" and t[1] in ("ip", "ra"):
            states.append((int(t[2], 16), int(t[3][3:], 16), int(t[4][3:], 16)))
    return states, items[-1]

def judge(script, impl):
    bad = []
    for ln, line in impl.items():
        if line is not None and vlib.outcome(line)[0] == "hang":
            bad.append((ln, "the call did not return (watchdog): a walk through this frame never terminates: %s" % script.lines[ln - 1][:300]))
    for ln, m in script.meta.items():
        line = impl.get(ln)
        if line is None or not line.startswith("iter"):
            continue
        states, last = parse_trace(line)
        if last.startswith("panic") or last.startswith("hang"):
            continue           # C09 / C14
        # caller-frame steps: from states[1] on (states[0] is the first frame)
        # (the step out of the FIRST frame is outside the statement - "across the caller frames" - and aarch64 does let a
        # first frame whose lr equals its pc repeat address and sp once; the x86_64 rules refuse that too, which the
        # correspondence holds them to: streams selfslot / selflr)
        for i in range(2, len(states)):
            a0, s0, f0 = states[i - 1]; a1, s1, f1 = states[i]
            if s1 < s0:
                bad.append((ln, "stack pointer decreased over a caller-frame step: %#x -> %#x in %s" % (s0, s1, line[:300]))); break
            if s1 == s0 and a1 == a0:
                bad.append((ln, "a step reported success leaving sp and code address unchanged: %s" % line[:300])); break
        seen = {}
        for i, st in enumerate(states[1:], 1):
            if st in seen:
                bad.append((ln, "state (address, sp, fp) = (%#x, %#x, %#x) visited twice (steps %d and %d)" % (st + (seen[st], i)))); break
            seen[st] = i
        # termination itself is the theorem (sp is bounded and strictly increases every two caller
        # steps); a walk may legitimately run long when return addresses come from registers and no
        # memory is read, so no step budget is imposed here.
        script.tags[ln] = script.tags.get(ln, "") + ":" + last.split()[0] + last.split()[1][:6] + ":" + str(min(len(states), 6))
    return bad

def project(script, ln, line):
    return vlib.norm(line, keep_alloc=False)
