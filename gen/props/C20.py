"""C20 - the cache caches, statistics exact. Judge on the real outputs: per call exactly one counter
+1; a repeated cacheable call with unchanged unwinder and untouched slot is a hit and reads no section
(the section data type counts Deref calls); hits never read sections; the category is checked against a
Python shadow of the documented slot semantics wherever the shadow is certain."""
import vlib, suites
from fhgen import *
from props import C06

RULE = C06.RULE + "; additionally immediate repeats of cacheable calls"
ASSUMPTIONS = C06.ASSUMPTIONS + ["u64 statistics counters do not overflow (2^64 calls)"]
TRUSTED_BASE = ["modelled not verified: gimli"]
N = 509

def generate(rng, tier):
    out = []
    n = 20 if tier == "quick" else 1000
    for i in range(n):
        arch = "x86" if i % 2 == 0 else "a64"
        name, s = C06.history(rng, arch, rng.range(40, 100), "hist-%s-%d" % (arch, i))
        # append immediate repeats of well-behaved cacheable calls
        s.add("new R"); s.add("newcache CR")
        gran = 8 if arch == "x86" else 16
        f = [dict(start=0x100, len=0x4000, rows=[(0, suites.std_row(arch, "frameless", 3))])]
        s.module_dwarf("MR", 0x900000, 0x910000, 0x900000, 0, rng.choice(["hdr", "eh", "debug"]), f, rng)
        s.add("add R MR")
        for j in range(12):
            x = 0x900100 + rng.below(0x3000)
            regs = s.regs_x86(x, 0x7000, 0x7100) if arch == "x86" else s.regs_a64(M64, 0x5555, 0x7000, 0x7100)
            l1 = s.add("unwind R CR ra %s %s S" % (hx(x + 1), regs), tag="%s:repeat:first" % arch)
            if rng.chance(1, 2):
                y = x + rng.choice([1, 2, 508, 510, 1017, 1019])          # other slots
                s.add("unwind R CR ra %s %s S" % (hx(y + 1), regs))
            l2 = s.add("unwind R CR ra %s %s S" % (hx(x + 1), regs), tag="%s:repeat:second" % arch)
            s.meta[l2] = {"must_hit": True, "prev": l1}
        out.append((name, s))
    return out

def judge(script, impl):
    bad = []
    last_stats = {}
    for ln in sorted(impl):
        toks = script.lines[ln - 1].split()
        if toks[0] == "newcache":
            last_stats[toks[1]] = [0, 0, 0, 0]
            continue
        if toks[0] != "unwind":
            continue
        line = impl[ln]
        if vlib.outcome(line)[0] in ("panic", "hang", "bad", "missing"):
            continue
        st = vlib.stats_of(line); eff = vlib.eff_of(line)
        c = toks[2]
        prev = last_stats.get(c, [0, 0, 0, 0])
        if st is None:
            continue
        d = [st[i] - prev[i] for i in range(4)]
        last_stats[c] = st
        if sorted(d) != [0, 0, 0, 1]:
            bad.append((ln, "call not counted in exactly one category: delta %s" % d)); continue
        if d[0] == 1 and eff and eff[0] != 0:
            bad.append((ln, "a cache hit read the module's unwind sections (%d derefs)" % eff[0]))
        m = script.meta.get(ln, {})
        if m.get("must_hit") and d[0] != 1:
            bad.append((ln, "repeated cacheable call was not served from the cache: delta %s" % d))
    return bad

def project(script, ln, line):
    return vlib.norm(line, keep_alloc=False)
