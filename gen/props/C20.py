"""C20 - the cache caches, statistics exact. Judge on the real outputs: per call exactly one counter
+1; a repeated cacheable call with unchanged unwinder and untouched slot is a hit and reads no section
(the section data type counts Deref calls); hits never read sections; the category is checked against a
Python shadow of the documented slot semantics wherever the shadow is certain."""
import vlib, suites
from fhgen import *
from props import C06

RULE = C06.RULE + "; additionally immediate repeats of cacheable calls"
ASSUMPTIONS = C06.ASSUMPTIONS + ["u64 statistics counters do not overflow (2^64 calls)"]
TRUSTED_BASE = ["modelled not verified: gimli"]
N = 509

def generate(rng, tier):
    out = []
    n = 20 if tier == "quick" else 1000
    for i in range(n):
        arch = "x86" if i % 2 == 0 else "a64"
        name, s = C06.history(rng, arch, rng.range(40, 100), "hist-%s-%d" % (arch, i))
        # append immediate repeats of well-behaved cacheable calls
        s.add("new R"); s.add("newcache CR")
        gran = 8 if arch == "x86" else 16
        f = [dict(start=0x100, len=0x4000, rows=[(0, suites.std_row(arch, "frameless", 3))])]
        s.module_dwarf("MR", 0x900000, 0x910000, 0x900000, 0, rng.choice(["hdr", "eh", "debug"]), f, rng)
        s.add("add R MR")
        for j in range(12):
            x = 0x900100 + rng.below(0x3000)
            regs = s.regs_x86(x, 0x7000, 0x7100) if arch == "x86" else s.regs_a64(M64, 0x5555, 0x7000, 0x7100)
            # the rule is cacheable whether or not executing it succeeds (reader E fails every read)
            memid = "S" if j % 3 else "E"
            l1 = s.add("unwind R CR ra %s %s %s" % (hx(x + 1), regs, memid), tag="%s:repeat:first:%s" % (arch, memid))
            s.meta[l1] = {"x": x, "cacheable": True}
            if rng.chance(1, 2):
                y = x + rng.choice([1, 2, 508, 510, 1017, 1019])          # other slots
                ly = s.add("unwind R CR ra %s %s S" % (hx(y + 1), regs))
                s.meta[ly] = {"x": y, "cacheable": True}
            if j % 4 == 1:
                # removing a start that is not registered changes nothing: same module-set identity, the repeat still hits
                lr = s.add("remove R %s" % hx(rng.choice([0x1234, 0x900001, 0x910000, M64])))
                s.meta[lr] = {"unknown_remove": "R"}
            l2 = s.add("unwind R CR ra %s %s %s" % (hx(x + 1), regs, memid), tag="%s:repeat:second:%s" % (arch, memid))
            s.meta[l2] = {"must_hit": True, "prev": l1, "x": x, "cacheable": True}
        # an image that straddles a 4 GiB boundary: the slot is the FULL address mod 509 (2^32 mod 509 = 355, so the
        # collision relation across the boundary differs from that of the low 32 bits)
        f2 = [dict(start=0x100, len=0x8000, rows=[(0, suites.std_row(arch, "frameless", 2))])]
        s.module_dwarf("MW", 0xfffff000, 0x100008000, 0xfffff000, 0, rng.choice(["hdr", "eh", "debug"]), f2, rng)
        s.add("add R MW"); s.add("newcache CW")
        for j in range(8):
            x = 0xfffff100 + rng.below(0xe00)                                  # below the boundary
            if j % 2 == 0:
                y = x + N * rng.range(8, 40)                                     # truly collides, above the boundary
            else:
                e = ((x & 0xffffffff) % N) + N * rng.range(1, 30)                # collides in the low 32 bits only
                y = (1 << 32) + e
            regs = s.regs_x86(x, 0x7000, 0x7100) if arch == "x86" else s.regs_a64(M64, 0x5555, 0x7000, 0x7100)
            for k2, a in enumerate((x, y, x)):
                ln = s.add("unwind R CW ra %s %s S" % (hx(a + 1), regs), tag="%s:straddle:%s:%d" % (arch, "true" if j % 2 == 0 else "low32", k2))
                s.meta[ln] = {"x": a, "cacheable": True}
                if k2 == 2 and j % 2 == 1:
                    s.meta[ln]["must_hit"] = True
        # calls that end in an error which does not depend on registers or stack (here: a PE image registered without
        # its text bytes, first frame inside a function with a table entry) cache the fallback rule: the repeat is a hit
        if arch == "x86":
            pe_lo = 0x7ff600000000
            module_pe(s, "MPN", pe_lo, pe_lo + 0x10000, pe_lo, 0x140000000, [(0x1000, 0x1080, 0)],
                      {0: dict(fpreg=None, fpoff=0, ops=[(4, ("alloc", 40))], chain=None, prolog=4)}, 0x1000, None)
            s.add("add R MPN"); s.add("newcache CP")
            for j in range(4):
                x = pe_lo + 0x1010 + 8 * j
                regs = s.regs_x86(x, 0x7000, 0x7100)
                l1 = s.add("unwind R CP ip %s %s S" % (hx(x), regs), tag="x86:pe:repeat-notext:first")
                s.meta[l1] = {"x": x, "cacheable": True}
                l2 = s.add("unwind R CP ip %s %s S" % (hx(x), regs), tag="x86:pe:repeat-notext:second")
                s.meta[l2] = {"must_hit": True, "prev": l1, "x": x, "cacheable": True}
        # calls that store nothing leave the slot as it was: an entry of ANOTHER module set stays there, and the next
        # call for that slot is again counted as 'other module set' (seeded change C20-11 cleared such slots on lookup).
        # Unwinder Q maps, at the addresses of R's image MR, an image whose row does not compress (CFA = sp + 12 / + 24:
        # evaluated generically, never cached).
        unc = dict(cfa=("r", ARCH_REGS[arch]["sp"], 12 if arch == "x86" else 24), fp=("s",), ra=(("o", -8) if arch == "x86" else ("s",)))
        fq = [dict(start=0x100, len=0x4000, rows=[(0, unc)])]
        s.module_dwarf("MQ", 0x900000, 0x910000, 0x900000, 0, rng.choice(["hdr", "eh", "debug"]), fq, rng)
        s.add("new Q"); s.add("add Q MQ"); s.add("newcache CQ")
        s.mem("SQ", [(0x7000 + 4 * i, 0x900200 + i) for i in range(64)])
        for j in range(4):
            x = 0x900100 + rng.below(0x3000)
            regs = s.regs_x86(x, 0x7000, 0x7100) if arch == "x86" else s.regs_a64(M64, 0x905555, 0x7000, 0x7100)
            l1 = s.add("unwind R CQ ra %s %s S" % (hx(x + 1), regs), tag="%s:keep-slot:fill" % arch)
            s.meta[l1] = {"x": x, "cacheable": True}
            for k2 in range(2):
                lq = s.add("unwind Q CQ ra %s %s SQ" % (hx(x + 1), regs), tag="%s:keep-slot:uncacheable:%d" % (arch, k2))
                s.meta[lq] = {"x": x, "uncacheable": True}
            l3 = s.add("unwind R CQ ra %s %s S" % (hx(x + 1), regs), tag="%s:keep-slot:again" % arch)
            s.meta[l3] = {"x": x, "cacheable": True, "must_hit": True, "prev": l1}
        s.add("stats CR"); s.add("stats CW"); s.add("stats C0"); s.add("stats CQ")
        out.append((name, s))
    return out

def judge(script, impl):
    """exactly-one-counter; hits read no section; repeats of cacheable calls hit; and the category is
    checked against a shadow of the documented slot semantics (slot = address mod 509 holding
    (address, module-set identity)) wherever the shadow is certain of the slot's content."""
    bad = []
    last_stats = {}
    shadow = {}            # cache id -> {slot: ("known", addr, gen) | "unknown"}
    gen_of = {}            # unwinder id -> identity
    NAMES = ["hit", "empty slot", "other module set", "other address"]
    for ln in sorted(impl):
        toks = script.lines[ln - 1].split()
        line = impl[ln]
        if toks[0] == "newcache":
            last_stats[toks[1]] = [0, 0, 0, 0]
            shadow[toks[1]] = {}
            continue
        if toks[0] == "stats":
            if "derived-mismatch" in line:
                bad.append((ln, "CacheStats::total / hits / misses disagree with the four counters: " + line))
            elif line.startswith("stats ") and toks[1] in last_stats and [int(x) for x in line.split()[1:5]] != last_stats[toks[1]]:
                bad.append((ln, "stats() after the history differs from the counters seen call by call: %s vs %s" % (line, last_stats[toks[1]])))
            continue
        if toks[0] in ("new", "add", "remove", "gen") and line.startswith("gen "):
            if script.meta.get(ln, {}).get("unknown_remove") and gen_of.get(toks[1]) not in (None, int(line.split()[1])):
                bad.append((ln, "removing an unregistered start changed the module-set identity (%s -> %s): cached rules are lost"
                            % (gen_of.get(toks[1]), line.split()[1])))
            gen_of[toks[1]] = int(line.split()[1]); continue
        if toks[0] == "clone" and line.startswith("gen "):
            gen_of[toks[2]] = int(line.split()[1]); continue
        if toks[0] == "clonefrom" and line.startswith("gen "):
            gen_of[toks[1]] = int(line.split()[1]); continue
        if toks[0] != "unwind":
            continue
        if vlib.outcome(line)[0] in ("panic", "hang", "bad", "missing"):
            continue
        st = vlib.stats_of(line); eff = vlib.eff_of(line)
        u, c = toks[1], toks[2]
        prev = last_stats.get(c, [0, 0, 0, 0])
        if st is None:
            continue
        d = [st[i] - prev[i] for i in range(4)]
        last_stats[c] = st
        if sorted(d) != [0, 0, 0, 1]:
            bad.append((ln, "call not counted in exactly one category: delta %s" % d)); continue
        cat = d.index(1)
        if cat == 0 and eff and eff[0] != 0:
            bad.append((ln, "a cache hit read the module's unwind sections (%d derefs)" % eff[0]))
        m = script.meta.get(ln, {})
        if m.get("must_hit") and cat != 0:
            bad.append((ln, "repeated cacheable call was not served from the cache: counted as %s" % NAMES[cat]))
        # shadow of the slot semantics
        addr = int(toks[4], 16); x = addr if toks[3] == "ip" else addr - 1
        g = gen_of.get(u)
        sh = shadow.setdefault(c, {})
        cur = sh.get(x % N)
        if g is not None and cur != "unknown":
            if cur is None:
                exp = 1
            elif cur[2] != g:
                exp = 2
            elif cur[1] != x:
                exp = 3
            else:
                exp = 0
            if exp != cat:
                bad.append((ln, "counted as '%s' but the slot situation is '%s' (slot %d holds %s, call is for address %#x identity %s)"
                            % (NAMES[cat], NAMES[exp], x % N, cur, x, g)))
        if cat != 0:
            if m.get("cacheable") and g is not None:
                sh[x % N] = ("known", x, g)
            elif m.get("uncacheable"):
                pass                      # the call stores nothing: the slot keeps what it held
            else:
                sh[x % N] = "unknown"
    return bad

def project(script, ln, line):
    return vlib.norm(line, keep_alloc=False)
