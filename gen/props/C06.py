"""C06 - cache transparency. holds_C06 on the REAL code, independent of the model: every unwinding
call on the shared cache is followed by the identical call on a cache created just before it; the
two must return the same result and registers."""
import vlib, suites
from fhgen import *

RULE = ("histories of 40-120 operations over 1-3 unwinders (clones and clone_from refreshes included) sharing 1-2 caches: add/remove of modules "
        "in between, addresses colliding modulo the cache size, cacheable rows, rows only the generic path can "
        "evaluate, readers with holes (state-dependent errors), every call twinned with a fresh-cache call; "
        "distinct = (arch, presentation, address kind, cacheable?, reader)")
ASSUMPTIONS = ["each lookup address is used consistently as instruction pointer or return address within a history",
               "fewer than 65536 module-set changes per process", "stack reader is a pure partial function"]
TRUSTED_BASE = ["modelled not verified: gimli"]

def history(rng, arch, nops, name):
    s = Script(arch, rng.choice(["may", "must"]))
    base_stack, nw = 0x7000, 64
    s.mem("S", suites.stack_window(rng, base_stack, nw, 0x11010, holes=False))
    s.mem("H", suites.stack_window(rng, base_stack, nw, 0x11010, holes=True))
    s.mem("E", [])
    mods = []
    for i in range(4):
        base_svma = rng.choice([0, 0x100000000])
        base_avma = 0x10000 + 0x4000 * i
        fdes = []
        pos = base_svma + 0x100
        for j in range(rng.range(2, 5)):
            ln = rng.choice([0x40, 0x200, 0x400])
            rows = [(0, suites.std_row(arch, rng.choice(["frameless", "fp", "leaf"]), 2 + j))]
            if rng.chance(1, 2):
                rows.append((ln // 2, suites.rand_row(rng, arch)))
            fdes.append(dict(start=pos, len=ln, rows=rows))
            pos += ln + rng.choice([0, 0x10])
        # a row whose CFA is an expression over the frame pointer while everything else looks standard (PLT stubs, signal
        # trampolines): its result depends on the registers of the call, never on what an earlier call computed
        R = ARCH_REGS[arch]
        fdes.append(dict(start=pos, len=0x40, rows=[(0, dict(cfa=("e", [("breg", R["fp"], 16)]), fp=("s",), ra=("o", -8)))], generic=True))
        pos += 0x40
        pres = ["hdr", "eh", "debug"][i % 3]
        end = base_avma + (pos - base_svma) + 0x40
        s.module_dwarf("M%d" % i, base_avma, end, base_avma, base_svma, pres, fdes, rng, shuffle=True)
        mods.append(dict(id="M%d" % i, start=base_avma, end=end, fdes=fdes, bs=base_svma, pres=pres))
    # an image with an EMPTY address range (start == end) that nevertheless carries unwind data: the lookup finds it for
    # exactly its start address, so adding / removing it changes what that address unwinds to
    e_start = 0x9000
    s.module_dwarf("ME", e_start, e_start, e_start, 0, "eh", [dict(start=0, len=0x10, rows=[(0, suites.std_row(arch, "frameless", 9))])], rng)
    mods.append(dict(id="ME", start=e_start, end=e_start, fdes=[], bs=0, pres="eh"))
    s.add("new U0"); s.add("newcache C0"); s.add("newcache C1")
    unws = {"U0": set()}
    kinds = {}
    pool = [e_start] * 4
    cacheable = set()          # lookup addresses whose rule is certainly cacheable (standard rows / no module)
    for m in mods:
        for f in m["fdes"]:
            a0 = f["start"] - m["bs"] + m["start"]
            for off, _ in f["rows"]:
                pool.append(a0 + off + 1)
                pool.append(a0 + off + 1 + 509)        # same slot, other address
            if (len(f["rows"]) == 1 or f["rows"][1][0] > 1) and not f.get("generic"):
                cacheable.add(a0 + 1)                  # inside the first (standard) row
            pool.append(a0 + f["len"])                 # just past the FDE
    pool += [0x5, 0x9000, 0x20000 + 509 * 3]
    cacheable |= {0x5}
    for _ in range(nops):
        c = rng.below(20)
        u = rng.choice(sorted(unws))
        if c < 2:
            free = [m for m in mods if m["id"] not in unws[u]]
            if free:
                m = rng.choice(free); s.add("add %s %s" % (u, m["id"])); unws[u].add(m["id"])
        elif c < 3:
            if unws[u]:
                mid = rng.choice(sorted(unws[u])); m = [x for x in mods if x["id"] == mid][0]
                s.add("remove %s %s" % (u, hx(m["start"]))); unws[u].discard(mid)
        elif c < 4 and len(unws) < 3:
            v = "U%d" % len(unws); s.add("clone %s %s" % (u, v)); unws[v] = set(unws[u])
        elif c < 4 and len(unws) >= 2:
            # refresh an existing unwinder from another one (Clone::clone_from): its module set AND identity become the source's
            v = rng.choice([w for w in sorted(unws) if w != u])
            s.add("clonefrom %s %s" % (v, u)); unws[v] = set(unws[u])
        else:
            x = rng.choice(pool)
            if x not in kinds:
                kinds[x] = rng.choice(["ip", "ra"])
            kind = kinds[x]
            addr = x if kind == "ip" else x + 1
            memid = rng.choice(["S", "S", "H", "H", "E"])
            regs = suites.regs_for(s, rng, arch, x, base_stack, nw)
            cache = rng.choice(["C0", "C0", "C1"])
            l1 = s.add("unwind %s %s %s %s %s %s" % (u, cache, kind, hx(addr), regs, memid),
                       tag="%s:%s:%s" % (arch, kind, memid))
            s.add("newcache F")
            l2 = s.add("unwind %s F %s %s %s %s" % (u, kind, hx(addr), regs, memid))
            s.meta[l1] = {"twin": l2, "x": x, "cacheable": x in cacheable}
            s.meta[l2] = {"x": x, "cacheable": x in cacheable}
    return name, s

def pe_history(rng, nops, name):
    """the same for a PE module: compressible rules, interpreted unwind codes, epilogs, leaves, errors that depend on
    the registers (hostile predecessors) and errors that do not (missing data)"""
    import petruth
    s = Script("x86", rng.choice(["may", "must"]))
    prog = petruth.make_program(rng, 6)
    base = 0x7ff600000000
    module_pe(s, "M", base, base + 0x400000, base, 0x140000000, prog["table"], prog["uinfos"], prog["text_lo"],
              prog["text"] if rng.chance(3, 4) else None)
    lo, nw = 0x7000, 128
    s.mem("S", [(lo + 8 * i, rng.choice([0, lo + 8 * rng.below(nw), base + 0x1000 + rng.below(0x300), rng.u64()])) for i in range(nw)])
    s.mem("H", [(lo + 8 * i, rng.choice([lo + 8 * rng.below(nw), base + 0x1000 + rng.below(0x300)])) for i in range(nw) if rng.chance(2, 3)])
    s.mem("E", [])
    s.add("new U0"); s.add("add U0 M"); s.add("newcache C0"); s.add("newcache C1")
    pts = [f.regions[k].begin + off for f in prog["funcs"] for (k, off, ph, i) in petruth.boundaries(f)]
    pool = [base + a for a in pts] + [base + a + 509 for a in pts[:10]] + [base + 0x10, base + 0xfff]
    kinds = {}
    for _ in range(nops):
        x = rng.choice(pool)
        if x not in kinds:
            kinds[x] = rng.choice(["ip", "ra"])
        kind = kinds[x]
        addr = x if kind == "ip" else x + 1
        regs = [rng.choice([lo + 8 * rng.below(nw), lo + 8 * rng.below(nw), rng.u64(), rng.choice(BOUNDARY)]) for _ in range(16)]
        regs[4] = rng.choice([lo + 8 * rng.below(nw), lo + 8 * rng.below(nw), lo + 8 * rng.below(nw), (1 << 64) - 8 * rng.range(1, 4)])
        memid = rng.choice(["S", "S", "H", "E"])
        cache = rng.choice(["C0", "C0", "C1"])
        rtxt = petruth.script_regs(addr, regs)
        l1 = s.add("unwind U0 %s %s %s %s %s" % (cache, kind, hx(addr), rtxt, memid), tag="x86:pe:%s:%s" % (kind, memid))
        s.add("newcache F")
        l2 = s.add("unwind U0 F %s %s %s %s" % (kind, hx(addr), rtxt, memid))
        s.meta[l1] = {"twin": l2, "x": x, "cacheable": False}
        s.meta[l2] = {"x": x, "cacheable": False}
    return name, s

def two_unwinders(rng, arch, base, name):
    """two unwinders whose module sets differ only in WHAT is mapped at one address, used alternately with one cache:
    each must get the rule of its own module, wherever in the address space that address lies"""
    s = Script(arch, "may")
    for k, mid in ((3, "MA"), (5, "MB")):
        f = [dict(start=0x100, len=0x100, rows=[(0, suites.std_row(arch, "frameless", k))])]
        s.module_dwarf(mid, base, base + 0x1000, base, 0, "eh", f, rng)
    s.mem("S", [(0x7000 + 8 * i, 0x20000 + i) for i in range(64)])
    s.add("new U0"); s.add("new U1"); s.add("add U0 MA"); s.add("add U1 MB"); s.add("newcache C")
    for j in range(12):
        u = "U%d" % rng.below(2)
        x = base + 0x180 + rng.choice([0, 0, 1, 509])
        regs = s.regs_x86(x, 0x7000, 0x7100) if arch == "x86" else s.regs_a64(M64, 0x5555, 0x7000, 0x7100)
        ln = s.add("unwind %s C ip %s %s S" % (u, hx(x), regs), tag="%s:two-unwinders:%s" % (arch, "high" if base >> 48 else "low"))
        s.add("newcache F")
        lt = s.add("unwind %s F ip %s %s S" % (u, hx(x), regs))
        s.meta[ln] = {"twin": lt}
    return (name, s)

HIGH_BASES = [0x10000, 0xffff800000010000, 0xffffffff80000000, (1 << 48) + 0x10000, (0xabcd << 48) + 0x10000, (1 << 63) + 0x10000]

def overlap_history(rng, arch, name):
    """Mappings that OVERLAP an image with unwind data (anonymous / JIT mappings reported inside or across a library's
    range, a second image with other CFI in the middle of the first): adding or removing one changes which module an
    address resolves to - for the addresses inside it and for the addresses of the big module behind its start -
    whether or not the new module has unwind data.  Every call is twinned with a fresh cache."""
    s = Script(arch, rng.choice(["may", "must"]))
    base_stack, nw = 0x7000, 64
    s.mem("S", suites.stack_window(rng, base_stack, nw, 0x11010, holes=False))
    d0 = 0x10000
    fd = [dict(start=0x100 + 0x100 * j, len=0x100, rows=[(0, suites.std_row(arch, "frameless", 2 + j))]) for j in range(8)]
    s.module_dwarf("D", d0, d0 + 0x1000, d0, 0, ["hdr", "eh", "debug"][rng.below(3)], fd, rng, shuffle=True)
    over = {"NI": (d0 + 0x140, d0 + 0x180), "NB": (d0 - 0x1000, d0 + 0x220), "NA": (d0 + 0x700, d0 + 0x2000),
            "NW": (d0 - 0x2000, d0 + 0x4000), "NS": (d0 + 0x300, d0 + 0x301)}
    for k, (a, b) in over.items():
        s.module_none(k, a, b, a, 0)
    # a second image WITH unwind data (other frame sizes) in the middle of the first
    f2 = [dict(start=0, len=0x80, rows=[(0, suites.std_row(arch, "frameless", 12))])]
    s.module_dwarf("D2", d0 + 0x480, d0 + 0x500, d0 + 0x480, 0, "eh", f2, rng)
    starts = dict(D=d0, D2=d0 + 0x480, **{k: v[0] for k, v in over.items()})
    s.add("new U0"); s.add("add U0 D"); s.add("newcache C0")
    unws = {"U0": {"D"}}
    pts = [d0 + 0x100 * j + o for j in range(1, 9) for o in (1, 0x41, 0x50, 0x81, 0xff)] + [d0 + 0x2ff, d0 + 0x300, d0 + 0x301, d0 - 0x800, d0 + 0x1800]
    kinds = {}
    for _ in range(rng.range(80, 160)):
        c = rng.below(10)
        u = rng.choice(sorted(unws))
        if c < 2:
            free = [m for m in starts if m not in unws[u]]
            if free:
                m = rng.choice(free); s.add("add %s %s" % (u, m)); unws[u].add(m)
        elif c < 3:
            if unws[u]:
                m = rng.choice(sorted(unws[u])); s.add("remove %s %s" % (u, hx(starts[m]))); unws[u].discard(m)
        elif c < 4 and len(unws) < 2:
            s.add("clone %s U1" % u); unws["U1"] = set(unws[u])
        else:
            x = rng.choice(pts)
            kind = kinds.setdefault(x, rng.choice(["ip", "ra"]))
            addr = x if kind == "ip" else x + 1
            regs = suites.regs_for(s, rng, arch, x, base_stack, nw)
            l1 = s.add("unwind %s C0 %s %s %s S" % (u, kind, hx(addr), regs), tag="%s:overlap:%s" % (arch, kind))
            s.add("newcache F")
            l2 = s.add("unwind %s F %s %s %s S" % (u, kind, hx(addr), regs))
            s.meta[l1] = {"twin": l2}
    return name, s

def generate(rng, tier):
    out = []
    for i in range(4 if tier == "quick" else 60):
        out.append(overlap_history(rng, "x86" if i % 2 == 0 else "a64", "overlap-%d" % i))
    for bi, b in enumerate(HIGH_BASES):
        out.append(two_unwinders(rng, "x86" if bi % 2 == 0 else "a64", b, "two-%d" % bi))
    for i in range(6 if tier == "quick" else 200):
        out.append(pe_history(rng, rng.range(60, 160), "pehist-%d" % i))
    n = 24 if tier == "quick" else 1200
    for i in range(n):
        arch = "x86" if i % 2 == 0 else "a64"
        out.append(history(rng, arch, rng.range(40, 120), "hist-%s-%d" % (arch, i)))
    # many module-set changes between two uses of one cache entry: the identity stored with a rule is the whole
    # 16-bit identity, so only after 65 536 changes (the documented limit) may an old entry look current again
    for k in ([256, 4096] if tier == "quick" else [255, 256, 257, 512, 1024, 4096, 8192, 32768, 65535]):
        arch = "x86" if k % 512 == 256 else "a64"
        s = Script(arch, "may")
        gran = 8 if arch == "x86" else 16
        f = [dict(start=0x100, len=0x100, rows=[(0, suites.std_row(arch, "frameless", 3))])]
        s.module_dwarf("M", 0x10000, 0x11000, 0x10000, 0, "eh", f, rng)
        s.module_none("D", 0x50000, 0x50100, 0x50000, 0)
        s.mem("S", [(0x7000 + 8 * i, 0x20000 + i) for i in range(64)] + [(0x7400, 0x7500), (0x7408, 0x30000)])
        s.add("new U"); s.add("newcache C"); s.add("add U M")
        x = 0x10180
        regs = s.regs_x86(x, 0x7000, 0x7400) if arch == "x86" else s.regs_a64(M64, 0x5555, 0x7000, 0x7400)
        s.add("unwind U C ip %s %s S" % (hx(x), regs))
        s.add("remove U 0x10000")                      # change 1: the address now belongs to no module
        for j in range((k - 2) // 2):
            s.add("add U D"); s.add("remove U 0x50000")
        if (k - 2) % 2 == 1:
            s.add("add U D")
        s.add("add U D" if (k - 2) % 2 == 0 else "remove U 0x50000")       # change k
        ln = s.add("unwind U C ip %s %s S" % (hx(x), regs), tag="%s:genwrap:%d" % (arch, k))
        s.add("newcache F")
        lt = s.add("unwind U F ip %s %s S" % (hx(x), regs))
        s.meta[ln] = {"twin": lt}
        out.append(("genwrap-%d" % k, s))
    # Mach-O: a function whose compact-unwind entry defers to __eh_frame and whose row does not compress. Its step fails
    # or succeeds with the stack it is given - whatever happened on an earlier visit says nothing about the next (the
    # error of the DWARF hand-off is a DWARF error whichever format the module has; seeded change C06-14)
    import machotruth as mt
    for ai, arch in enumerate(("x86", "a64")):
        R = ARCH_REGS[arch]
        s = Script(arch, "may" if ai == 0 else "must")
        prog = mt.make_program(rng, arch, 4)
        df = [f for f in prog["funcs"] if f.dwarf]
        for f in df:
            f.force_rows = [(0, dict(cfa=("r", R["sp"], 12 if arch == "x86" else 24), fp=("s",), ra=("o", -8)))]
        base = 0x100000000 + 0x10000 * rng.below(64)
        mt.module_macho(s, "M", prog, base, 0x100000000, rng)
        s.add("new U"); s.add("add U M"); s.add("newcache C")
        s.mem("E", [])
        s.mem("S", [(0x7000 + 4 * i, base + 0x1000 + 0x10 * (i % 32) + 3) for i in range(128)])
        for f in df:
            for j in range(3):
                a = base + f.start + (1 if arch == "x86" else 4) * rng.range(1, max(1, f.length // (1 if arch == "x86" else 4) - 1))
                regs = s.regs_x86(a, 0x7000 + 8 * rng.below(8), 0x7100) if arch == "x86" else s.regs_a64(M64, base + 0x1234, 0x7000 + 16 * rng.below(4), 0x7100)
                for memid in (("E", "S", "E", "S") if j % 2 == 0 else ("S", "E", "S")):
                    ln = s.add("unwind U C ra %s %s %s" % (hx(a + 1), regs, memid), tag="%s:macho-dwarf-generic:%s" % (arch, memid))
                    s.add("newcache F")
                    lt = s.add("unwind U F ra %s %s %s" % (hx(a + 1), regs, memid))
                    s.meta[ln] = {"twin": lt}
        out.append(("macho-generic-%s" % arch, s))
    # two images whose addresses fall into the same slots AND agree in every narrower summary of the address one might
    # store instead of it: 509 * 2^32 * j bytes apart (same slot, same quotient modulo 2^32), 2^32 * j apart with equal
    # low halves, 509 * j apart. The entry holds the whole 64-bit address (seeded change C08-12 stored address / 509 in 32 bits).
    for ai, arch in enumerate(("x86", "a64")):
        gran = 8 if arch == "x86" else 16
        for di, dist in enumerate((509 << 32, 509 << 33, 1 << 32, 509 * 0x1000, (509 << 32) + 509)):
            s = Script(arch, "may" if di % 2 == 0 else "must")
            lo = 0x10000 + 0x1000 * rng.below(16)
            fa = [dict(start=0x100, len=0x800, rows=[(0, suites.std_row(arch, "frameless", 2))])]
            fb = [dict(start=0x100, len=0x800, rows=[(0, suites.std_row(arch, "frameless", 5))])]
            s.module_dwarf("MA", lo, lo + 0x1000, lo, 0, "eh", fa, rng)
            s.module_dwarf("MB", lo + dist, lo + dist + 0x1000, lo + dist, 0, "eh", fb, rng)
            s.mem("S", [(0x7000 + 8 * i, 0x20000 + i) for i in range(64)])
            s.add("new U"); s.add("add U MA"); s.add("add U MB"); s.add("newcache C")
            for j in range(6):
                x = lo + 0x100 + rng.below(0x700)
                for a in ((x, x + dist, x) if j % 2 == 0 else (x + dist, x, x + dist)):
                    regs = s.regs_x86(a, 0x7000, 0x7100) if arch == "x86" else s.regs_a64(M64, 0x5555, 0x7000, 0x7100)
                    ln = s.add("unwind U C ip %s %s S" % (hx(a), regs), tag="%s:far-collision:%d" % (arch, di))
                    s.add("newcache F")
                    lt = s.add("unwind U F ip %s %s S" % (hx(a), regs))
                    s.meta[ln] = {"twin": lt}
            out.append(("far-collision-%s-%d" % (arch, di), s))
    return out

def judge(script, impl):
    bad = []
    for ln, m in script.meta.items():
        if "twin" not in m:
            continue
        a, b = impl.get(ln), impl.get(m["twin"])
        if a is None or b is None:
            continue
        pa = (vlib.outcome(a), vlib.regs_of(a)); pb = (vlib.outcome(b), vlib.regs_of(b))
        if pa[0][0] == "panic" and pb[0][0] == "panic":
            continue
        if pa != pb:
            bad.append((ln, "outcome depends on the cache's history:\nshared cache: %s\nfresh cache : %s" % (a, b)))
    return bad

def project(script, ln, line):
    return vlib.norm(line, keep_alloc=False)
