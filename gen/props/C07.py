"""C07 - module set semantics. Oracle independent of the model: a Python dict start->module per
unwinder; every module covers its whole range with one FDE whose frameless row has a unique sp delta,
so the sp delta of a result names the module that answered; the fp fallback has its own delta."""
import vlib, suites
from fhgen import *

RULE = ("random add/remove/clone sequences over pairwise non-overlapping modules (adjacent, base below start, at 0 and "
        "at 2^64-1, images of 4 GiB and more, each presentation), probes at every range boundary +-1 as ip and ra, max_known_code_address after "
        "every change; distinct = (arch, presentation, position class of the probe, op history class)")
ASSUMPTIONS = ["modules are pairwise non-overlapping with non-empty ranges (the statement's hypothesis)",
               "binary_search_by_key modelled by its contract on sorted duplicate-free keys"]
TRUSTED_BASE = ["modelled not verified: gimli, core::slice::binary_search_by_key, Vec::insert/remove"]

def generate(rng, tier):
    out = []
    reps = 16 if tier == "quick" else 400
    for rep in range(reps):
        arch = "x86" if rep % 2 == 0 else "a64"
        gran = 8 if arch == "x86" else 16
        s = Script(arch)
        base_stack = 0x7000
        s.mem("S", [(base_stack + 8 * i, 0x50000 + i) for i in range(200)] + [(0x7800, 0x7900), (0x7808, 0x66666)])
        # candidate modules: a chain of adjacent ranges + ones at the ends of the address space
        cands = []
        pos = rng.choice([0, 0x1000, 0x10000])
        for i in range(rng.range(3, 7)):
            ln = rng.choice([1, 2, 0x10, 0x100, 0x1000])
            gap = rng.choice([0, 0, 1, 0x100])
            cands.append((pos + gap, pos + gap + ln))
            pos = pos + gap + ln
        if rep % 4 >= 2:
            # images of 4 GiB and more (relative addresses are 32 bits wide: only the first 4 GiB above the base are reachable)
            big0 = 0x200000000 + 0x1000 * rng.below(16)
            cands.append((big0, big0 + (1 << 32) + rng.choice([0, 0x2000, 0x10])))
            if rng.chance(1, 2):
                cands.append((0x800000000, 0x800000000 + (1 << 33) + 0x10))
        if rep % 4 == 1:
            cands.append((0x400000000 + 0x1000 * rng.below(16), 0x400000000 + 0x20000))     # room for a base address 8 GiB below
        # an image registered with an EMPTY range (start == end), away from the others: it contains no address, its start
        # included (S24: the exact hit of the lookup's binary search skipped the end test)
        e0 = 0x6000000 + 0x1000 * rng.below(64)
        cands.append((e0, e0))
        cands.append((M64 - 0x100, M64))
        if rng.chance(1, 2):
            cands.append((M64 - 0x300, M64 - 0x100))
        mods = {}
        for i, (st, en) in enumerate(cands):
            k = 2 + i
            back = rng.choice([0, 0, 0x10, 0x1000, "far", "above"])
            if back == "far":
                base_avma = st - (1 << 33) if st >= (1 << 33) else max(0, st - 0x1000)     # nothing of the image is within the 32-bit reach
            elif back == "above":
                base_avma = st + 0x10 if en - st > 0x20 else st                          # the first bytes lie below the base address
            else:
                base_avma = max(0, st - back)
            base_svma = rng.choice([0, 0x100000000])
            pres = rng.choice(["hdr", "eh", "debug"])
            if en == st:
                base_avma = st
            f = [dict(start=base_svma + max(st - base_avma, 0), len=(en - max(st, base_avma)) if en > st else 0x100,
                      rows=[(0, suites.std_row(arch, "frameless", k))])]
            s.module_dwarf("M%d" % i, st, en, base_avma, base_svma, pres, f, rng)
            mods["M%d" % i] = dict(start=st, end=en, k=k, pres=pres, base=base_avma)
        unws = {}
        s.add("new U0"); unws["U0"] = {}
        s.add("newcache C")
        def probe(u):
            cur = unws[u]
            pts = set([0, 1, M64, M64 - 1])
            for st, mid in cur.items():
                en = mods[mid]["end"]
                for a in (st - 1, st, st + 1, en - 1, en, en + 1):
                    if 0 <= a <= M64:
                        pts.add(a)
            allpts = sorted(pts | set(x for (st, en) in cands for x in (st, en - 1)))
            # every registered module's first and last byte, plus a few others
            chosen = [x for st, mid in cur.items() for x in (st, mods[mid]["end"] - 1)]
            chosen += [rng.choice(allpts) for _ in range(4)]
            for st, mid in cur.items():
                if mods[mid]["end"] - st >= (1 << 32):
                    chosen += [st + o for o in (1, 0x1fff, 0x2000, 0x2001, (1 << 31), (1 << 32) - 0x1001, (1 << 32) - 1 - (st - mods[mid]["base"]))]
            # beyond 4 GiB above a module's base address nothing can be looked up (documented width of relative addresses)
            far = lambda a: any(st <= a < mods[mid]["end"] and a - mods[mid]["base"] >= (1 << 32) for st, mid in cur.items())
            for st, mid in cur.items():
                if mods[mid]["end"] - mods[mid]["base"] > (1 << 32):
                    chosen += [mods[mid]["base"] + (1 << 32) + o for o in (0, 1, 0x40) if mods[mid]["base"] + (1 << 32) + o < mods[mid]["end"]]
            for a in chosen:
                kind = rng.choice(["ip", "ra"])
                addr = a if kind == "ip" else a + 1
                if addr > M64 or (kind == "ra" and addr == 0):
                    kind, addr = "ip", a
                sp = base_stack + gran * rng.range(0, 4)
                bp = 0x7800
                regs = s.regs_x86(a, sp, bp) if arch == "x86" else s.regs_a64(M64, 0x4444, sp, bp)
                # two probes out of three go through ONE cache that lives as long as the script (what it has seen
                # must not matter: the module an address belongs to is decided by the registered ranges alone)
                cname = "C" if rng.below(3) else "F"
                if cname == "F":
                    s.add("newcache F")
                ln = s.add("unwind %s %s %s %s %s S" % (u, cname, kind, hx(addr), regs))
                hit = None
                for st, mid in cur.items():
                    if st <= a < mods[mid]["end"] and 0 <= a - mods[mid]["base"] < (1 << 32):
                        hit = mid          # 4 GiB and more above the base nothing is reachable: treated like no module at all
                s.meta[ln] = {"expect": mods[hit]["k"] * gran if hit else None, "sp": sp, "bp": bp, "arch": arch,
                              "kind": kind}
                s.tags[ln] = "%s:%s:%s:%s" % (arch, mods[hit]["pres"] if hit else "none", kind,
                                              "lo" if a < 0x100000 else "hi")
        for step in range(rng.range(10, 20)):
            u = rng.choice(sorted(unws))
            c = rng.below(10)
            if len(unws[u]) >= 3 and rng.chance(1, 3):
                c = 5                                      # remove a registered module (often not the last)
            if c < 5:
                free = [m for m in mods if mods[m]["start"] not in unws[u]]
                if free:
                    mid = rng.choice(free)
                    s.add("add %s %s" % (u, mid)); unws[u][mods[mid]["start"]] = mid
            elif c < 7:
                if unws[u] and rng.chance(2, 3):
                    st = rng.choice(sorted(unws[u]))
                else:
                    # unknown starts: arbitrary values, and every other address that identifies a registered image to
                    # its owner (its base address when that is not the start of the range, its end, its last byte)
                    own = [x for m in unws[u].values() for x in (mods[m]["base"], mods[m]["end"], mods[m]["end"] - 1)]
                    st = rng.choice([5, 0x1234567, M64 - 1] + [c0[0] + 1 for c0 in cands] + own + own)
                    if st in unws[u]:
                        continue
                ln = s.add("remove %s %s" % (u, hx(st)))
                s.meta[ln] = {"removed": st in unws[u]}
                unws[u].pop(st, None)
            elif c < 8 and len(unws) < 3:
                v = "U%d" % len(unws)
                s.add("clone %s %s" % (u, v)); unws[v] = dict(unws[u])
            ln = s.add("max %s" % u)
            s.meta[ln] = {"max": max([mods[m]["end"] for m in unws[u].values()] or [0])}
            probe(rng.choice(sorted(unws)))
        out.append(("modset-%s-%d" % (arch, rep), s))
    return out

def judge(script, impl):
    bad = []
    prev_gen = {}
    for ln in sorted(impl):
        line = impl[ln]
        toks = script.lines[ln - 1].split()
        m = script.meta.get(ln, {})
        if toks[0] == "max":
            if line != "max 0x%x" % m["max"]:
                bad.append((ln, "max_known_code_address: %s, expected 0x%x" % (line, m["max"])))
        elif toks[0] == "unwind":
            o = vlib.outcome(line); rg = vlib.regs_of(line)
            if rg is None or o[:2] != ("ok", "some"):
                bad.append((ln, "probe did not unwind: %s" % line)); continue
            new_sp = rg[8] if m["arch"] == "x86" else rg[2]
            delta = new_sp - m["sp"]
            if m["expect"] is not None:
                if delta != m["expect"]:
                    bad.append((ln, "address inside a registered range unwound with other data: sp delta %d expected %d" % (delta, m["expect"])))
            else:
                # no module contains the address -> no module's data: frame pointer fallback
                if new_sp != m["bp"] + 16:
                    bad.append((ln, "address outside every registered range was unwound with some module's data: %s" % line))
        elif toks[0] == "remove" and "removed" in m:
            pass
    return bad

def project(script, ln, line):
    return vlib.norm(line, keep_alloc=False)
