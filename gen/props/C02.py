"""C02 - compact unwind + instruction analysis is exact in prologues and epilogues.
Oracle (gen/machotruth.py, independent of framehop, macho-unwind-info and the Coq model): Mach-O
programs are synthesized from the standard compiler prologue / epilogue shapes with real
instruction encodings, __unwind_info is encoded as the linker does (regular and compressed pages,
common encodings, merged and unmerged entries), DWARF-deferred functions get __eh_frame FDEs; a
machine executes calls, prologues and epilogues, so the chain of return addresses and the caller's
sp / fp after every step are known by construction.  Walks (trace), every frame on its own with
its true registers (unwind, fresh and warmed cache) and the iterator are compared with the truth.
The analysers are also swept directly through the hooks (every boundary of every function, both
entry points) and compared with the model."""
import vlib, machotruth as mt
from fhgen import *

RULE = ("synthesized Mach-O programs (8+ functions: x86_64 frame-based / frameless immediate / frameless indirect / "
        "DWARF-deferred / without info; arm64 frame-based with and without callee-saved pairs and return-address "
        "signing / frameless leaf / DWARF-deferred / without info; stubs and stub helpers) x merged and unmerged "
        "entries x regular and compressed pages x call chains of depth 1..6 x every interruption point of the "
        "innermost frame x fresh and warmed cache; distinct = (arch, shape, phase, next instruction)")
ASSUMPTIONS = ["functions follow the prologue / epilogue grammar of the generator (what clang emits for these shapes)",
               "stack reader is a pure partial function"]
TRUSTED_BASE = ["modelled not verified: macho-unwind-info (page lookup, opcode bit fields; tied by the correspondence on "
                "real __unwind_info bytes), gimli for DWARF-deferred entries"]

def k_tailcall_after_add(script, ln, impl_line, desc):
    m = script.meta.get(ln, {})
    return bool(m.get("k2"))

def big_bp(f):
    """x86_64 frameless entry whose saved rbp lies more than 32767 words above rsp in the body: OffsetSpAndRestoreBp cannot
    hold the slot (i16) and compact unwinding has no uncompressed path"""
    from machotruth import RBP
    if f.arch != "x86" or f.dwarf or getattr(f, "frame", True) or RBP not in (getattr(f, "saved", None) or []):
        return False
    size = f.alloc + 8 * (len(f.saved) + 1)
    return (size - 16 - 8 * f.saved.index(RBP)) // 8 > 32767

def k_big_bp(script, ln, impl_line, desc):
    m = script.meta.get(ln, {})
    return bool(m.get("k3"))

KNOWN = {"S19_x86_tailcall_after_add_rsp": k_tailcall_after_add, "S21_x86_frameless_rbp_slot_beyond_i16": k_big_bp}

def generate(rng, tier):
    out = []
    progs = 6 if tier == "quick" else 120
    for pi in range(progs):
        arch = "x86" if pi % 2 == 0 else "a64"
        s = Script(arch, "may" if pi % 4 < 2 else "must")
        prog = mt.make_program(rng, arch)
        base_svma = 0x100000000
        base = 0x100000000 + 0x10000 * rng.below(4096)
        mt.module_macho(s, "M", prog, base, base_svma, rng, merge=(pi % 3 != 0), seg=(pi % 5 == 0))
        s.add("new U"); s.add("add U M")
        mask = (1 << 48) - 1
        # every interruption point of every function once (short chains), then random chains
        forced = [(f, i) for f in prog["funcs"] for i in range(len(f.insns))]
        nsc = len(forced) + (15 if tier == "quick" else 100)
        for k in range(nsc):
            inner_pt = forced[k] if k < len(forced) else None
            sc = mt.make_scenario(rng, prog, base, 0x7ffe0000 + 0x1000 * rng.below(8),
                                  rng.range(1, 3) if inner_pt else rng.range(1, 6), inner=inner_pt)
            mid = "S%d" % k
            s.mem(mid, sorted(sc["mem"].items()))
            fr = sc["frames"]
            inner = fr[0]
            f = inner["func"]
            def regs_of(x):
                return s.regs_x86(x["pc"], x["sp"], x["fp"]) if arch == "x86" else s.regs_a64(mask, x["lr"], x["sp"], x["fp"])
            k2 = False
            if arch == "x86" and inner["insn"] == "jmp" and inner["index"] > 0 and f.insns[inner["index"] - 1][1].kind == "add":
                k2 = True
            k3 = any(big_bp(x["func"]) for x in fr)          # a frame of the known finding S21 anywhere in the chain derails the walk
            chain = [[(x["ra"] & mask) if arch == "a64" else x["ra"], x["caller"][0], x["caller"][1]] for x in fr[:-1]]
            s.add("newcache C")
            ln = s.add("trace U C %s %s %s %d" % (hx(inner["pc"]), regs_of(inner), mid, len(fr) + 3),
                       tag="walk:%s:%s:%s:%s" % (arch, f.shape, inner["phase"], inner["insn"]))
            s.meta[ln] = {"chain": chain, "k2": k2, "k3": k3}
            li = s.add("iter U C %s %s %s %d 0" % (hx(inner["pc"]), regs_of(inner), mid, len(fr) + 2))
            s.meta[li] = {"chain_iter": [c[0] for c in chain], "k2": k2, "k3": k3}
            s.add("newcache D")
            for j, x in enumerate(fr):
                kind = "ip" if x["kind"] == "first" else "ra"
                for rep in range(2):
                    ln = s.add("unwind U D %s %s %s %s" % (kind, hx(x["pc"]), regs_of(x), mid),
                               tag="step:%s:%s:%s:%s" % (arch, x["func"].shape, x.get("phase", "caller"), "warm" if rep else "fresh"))
                    s.meta[ln] = {"ra": (x["ra"] & mask) if arch == "a64" else x["ra"], "caller": list(x["caller"]) if x["caller"] else None,
                                  "arch": arch, "k2": k2 and j == 0, "k3": big_bp(x["func"])}
        # stubs and stub helpers (first frames only)
        lo, hi = prog["stubs"]
        hlo, hhi = prog["helper"]
        s.mem("T", [(0x7000 + 8 * i, base + 0x1000 + 0x10 * i) for i in range(32)])
        if arch == "x86":
            # instruction boundaries of the helper: shared part +0 +7 +9 +0xf, then 10-byte entries at +0 and +5
            hb = [hlo + o for o in (0, 7, 9, 0xf)] + [hlo + 0x10 + 10 * k + d for k in range((hhi - hlo - 0x10) // 10) for d in (0, 5)]
        else:
            hb = list(range(hlo, hhi, 4))
        for a in list(range(lo, hi, 6 if arch == "x86" else 4))[:6] + hb[:40]:
            sp = 0x7000 + 8 * rng.below(8) if arch == "x86" else 0x7000 + 16 * rng.below(4)
            lr = base + 0x1234
            regs = s.regs_x86(base + a, sp, 0x7100) if arch == "x86" else s.regs_a64(mask, lr, sp, 0x7100)
            s.add("newcache E")
            ln = s.add("unwind U E ip %s %s T" % (hx(base + a), regs), tag="stub:%s:%s" % (arch, "stubs" if a < hi else "helper"))
            s.meta[ln] = {"stub": [a, lo, hi, hlo, hhi], "sp": sp, "lr": lr, "arch": arch, "base": base}
        out.append(("macho-%s-%d" % (arch, pi), s))
        # the analysers directly (hooks): every boundary (and every byte on x86_64) of every function, three entries
        sw = Script(arch, "may")
        for f in prog["funcs"]:
            b = f.text()
            offs = list(range(0, len(b) + 1, 1 if arch == "x86" else 4))
            if tier == "quick" and len(offs) > 24:
                offs = sorted(set([0, len(b)] + [rng.choice(offs) for _ in range(22)]))
            for off in offs:
                for kind in ("pro", "epi", "both"):
                    sw.add("analyze %s %s %d" % (kind, hexs(b), off), tag="sweep:%s:%s:%s" % (arch, f.shape, kind))
        out.append(("sweep-%s-%d" % (arch, pi), sw))
    # instruction soup through the hooks (shuffled / truncated prologue and epilogue instructions, wide immediates)
    from props import C14
    for name, sc in C14.analysis_stream(rng, tier):
        if not getattr(sc, "nomodel", False):
            out.append(("soup-" + name, sc))
    return out

def stub_expect(m):
    """what the stub / stub-helper INSTRUCTIONS have done to the stack at this address (not what framehop assumes):
    x86_64 helper: shared part  +0 lea r11,[..] (7 bytes)  +7 push r11 (2)  +9 jmp [..] (6)  +0xf nop ; then
    10-byte entries  +0 push imm32 (5)  +5 jmp shared (5).  An entry is reached with only the return address on the
    stack; its push adds one word; the shared push r11 adds a second one.
    arm64 helper:  +0 adr  +4 nop  +8 stp x16,x17,[sp,#-16]!  +0xc nop  +0x10 ldr  +0x14 br ; 12-byte entries
    that do not touch sp."""
    a, lo, hi, hlo, hhi = m["stub"]
    sp, arch = m["sp"], m["arch"]
    mem = {0x7000 + 8 * i: m["base"] + 0x1000 + 0x10 * i for i in range(32)}
    if arch == "x86":
        if lo <= a < hi:
            pops = 0
        else:
            o = a - hlo
            if o < 9:
                pops = 1                      # the entry's push imm32 only (push r11 at +7 has not executed yet)
            elif o < 0x10:
                pops = 2
            else:
                pops = 0 if (o - 0x10) % 10 < 5 else 1
        return mem[sp + 8 * pops], sp + 8 * pops + 8
    if lo <= a < hi:
        return m["lr"], sp
    o = a - hlo
    return m["lr"], sp + (16 if 0xc <= o < 0x18 else 0)

def judge(script, impl):
    bad = []
    for ln, m in script.meta.items():
        line = impl.get(ln)
        if line is None:
            continue
        if "chain" in m:
            items = [x.strip() for x in line[5:].split("|")]
            exp = ["ok ra 0x%x sp=0x%x fp=0x%x" % tuple(c) for c in m["chain"]] + ["ok none"]
            got = items[1:]
            if got != exp:
                k = 0
                while k < min(len(got), len(exp)) and got[k] == exp[k]:
                    k += 1
                bad.append((ln, "walk differs from the true chain at step %d: got '%s', true '%s'\nfull: %s" % (
                    k + 1, got[k] if k < len(got) else "<nothing>", exp[k] if k < len(exp) else "<end>", line[:600])))
        elif "chain_iter" in m:
            items = [x.strip() for x in line[5:].split("|")]
            exp = ["ok ra 0x%x" % ra for ra in m["chain_iter"]] + ["ok none", "ok none"]
            got = items[1:]
            if got[:len(exp)] != exp[:len(got)] or len(got) < len(exp) - 1:
                bad.append((ln, "iterator differs from the true chain: %s (true: %s)" % (line[:400], exp)))
        elif "stub" in m:
            ra, nsp = stub_expect(m)
            o = vlib.outcome(line); rg = vlib.regs_of(line)
            gsp = (rg[8] if m["arch"] == "x86" else rg[2]) if rg else None
            if o != ("ok", "some", ra) or gsp != nsp:
                bad.append((ln, "stub at +%#x: expected return address %#x and sp %#x, got %s" % (m["stub"][0], ra, nsp, line[:300])))
        else:
            o = vlib.outcome(line); rg = vlib.regs_of(line)
            if m["ra"] == 0:
                if o != ("ok", "none"):
                    bad.append((ln, "root frame: expected Ok(None), got %s" % line[:300]))
                continue
            gsp, gfp = ((rg[8], rg[7]) if m["arch"] == "x86" else (rg[2], rg[3])) if rg else (None, None)
            if o != ("ok", "some", m["ra"]) or [gsp, gfp] != m["caller"]:
                bad.append((ln, "single step: true return address %#x with caller sp=%#x fp=%#x, got %s" % (
                    m["ra"], m["caller"][0], m["caller"][1], line[:300])))
    return bad

def project(script, ln, line):
    return vlib.norm(line, keep_alloc=False)
