"""suites.py - reusable case generators (scripts) shared by the property modules."""
from fhgen import *

X86_RULES = ["EndOfStack", "JustReturn", "JustReturnIfFirstFrameOtherwiseFp", "OffsetSp",
             "OffsetSpAndRestoreBp", "UseFramePointer", "OffsetSpAndPopRegisters"]
A64_RULES = ["NoOp", "NoOpIfFirstFrameOtherwiseFp", "OffsetSp", "OffsetSpIfFirstFrameOtherwiseStackEndsHere",
             "OffsetSpAndRestoreLr", "OffsetSpAndRestoreFpAndLr", "UseFramePointer", "UseFramepointerWithOffsets"]
K_VALS = [0, 1, 2, 3, 5, 16, 0xff, 0x1000, 0xfffe, 0xffff]
Y_VALS = [-32768, -4097, -3, -2, -1, 0, 1, 2, 3, 7, 4096, 32767]
MASKS = [M64, (1 << 40) - 1, (1 << 48) - 1, (1 << 47) - 1, 0xffff, 0, 1 << 63, 0x00ff00ff00ff00ff]

def rand_rule_x86(rng):
    r = rng.choice(X86_RULES)
    if r == "OffsetSp":
        return "OffsetSp %d" % rng.choice(K_VALS)
    if r == "OffsetSpAndRestoreBp":
        return "OffsetSpAndRestoreBp %d %d" % (rng.choice(K_VALS), rng.choice(Y_VALS))
    if r == "OffsetSpAndPopRegisters":
        enc = rng.choice([0, 1, 7, 8, 5039, 5040, 40319, rng.below(40320), rng.below(40320)])
        return "OffsetSpAndPopRegisters %d %d %d" % (rng.choice(K_VALS), rng.range(0, 8), enc)
    return r

def rand_rule_a64(rng):
    r = rng.choice(A64_RULES)
    if r in ("OffsetSp", "OffsetSpIfFirstFrameOtherwiseStackEndsHere"):
        return "%s %d" % (r, rng.choice(K_VALS))
    if r == "OffsetSpAndRestoreLr":
        return "%s %d %d" % (r, rng.choice(K_VALS), rng.choice(Y_VALS))
    if r in ("OffsetSpAndRestoreFpAndLr", "UseFramepointerWithOffsets"):
        return "%s %d %d %d" % (r, rng.choice(K_VALS), rng.choice(Y_VALS), rng.choice(Y_VALS))
    return r

def stack_window(rng, base, nwords, ip_like, holes=True, signbits=0):
    """A readable window of nwords 8-byte words starting at base; values are a mix of
    code-like addresses, in-window pointers, zero and the current ip."""
    pairs = []
    for i in range(nwords):
        a = (base + 8 * i) & M64
        if a < base:
            break
        if holes and rng.chance(1, 12):
            continue
        c = rng.below(10)
        if c == 0:
            v = 0
        elif c == 1:
            v = ip_like
        elif c < 5:
            v = (base + 8 * rng.range(0, nwords + 2)) & M64          # stack pointer-like
        elif c < 9:
            v = 0x10000 + rng.below(0x30000)                           # code-like
        else:
            v = rng.choice(BOUNDARY)
        if signbits and c >= 5 and c < 9 and rng.chance(1, 2):
            v |= signbits
        pairs.append((a, v))
    return pairs

def sp_like(rng, base, nwords):
    c = rng.below(8)
    if c < 5:
        return (base + 8 * rng.range(0, nwords)) & M64
    if c == 5:
        return (base + rng.range(0, 8 * nwords)) & M64                 # unaligned
    return rng.choice(BOUNDARY)

def exec_suite(rng, arch, n, name="exec"):
    """Hook-level: rule x first x registers x reader."""
    s = Script(arch)
    bases = [0x7000, 0, 8, M64 - 0x7f, (1 << 63) - 0x40, 0x10]
    wins = []
    for i, b in enumerate(bases):
        nw = 16 if b < M64 - 0x100 else 16
        ipl = 0x10000 + 0x100 * i
        s.mem("W%d" % i, stack_window(rng, b, nw, ipl, holes=(i % 2 == 1),
                                      signbits=(0xab << 56) if arch == "a64" and i % 3 == 0 else 0))
        wins.append((b, nw, ipl))
    s.mem("E", [])
    for _ in range(n):
        wi = rng.below(len(wins) + 1)
        if wi == len(wins):
            mid, (b, nw, ipl) = "E", wins[0]
        else:
            mid, (b, nw, ipl) = "W%d" % wi, wins[wi]
        first = rng.below(2)
        if arch == "x86":
            rule = rand_rule_x86(rng)
            regs = s.regs_x86(ipl if rng.chance(3, 4) else rng.choice(BOUNDARY), sp_like(rng, b, nw), sp_like(rng, b, nw))
        else:
            rule = rand_rule_a64(rng)
            mask = rng.choice(MASKS)
            lr = rng.choice([ipl, 0, (0xab << 56) | ipl, rng.choice(BOUNDARY)])
            regs = s.regs_a64(mask, lr, sp_like(rng, b, nw), sp_like(rng, b, nw))
        s.add("exec %s %d %s %s" % (rule, first, regs, mid),
              tag="%s:%s:%d:%s" % (arch, rule.split()[0], first, "E" if mid == "E" else ("hi" if b > (1 << 62) else "lo")))
    return name + "-" + arch, s

# ---------------- DWARF rows ----------------
def rand_expr(rng, arch):
    R = ARCH_REGS[arch]
    c = rng.below(7)
    if c == 0:
        return [("breg", R["sp"], rng.choice([0, 8, 16, -8, 24]))]
    if c == 1:
        return [("breg", R["sp"], 8), ("lit", rng.choice([0, 8, 16, 40])), ("plus",)]
    if c == 2:
        return [("breg", R["fp"], 16), ("pluc", rng.choice([0, 8, 1 << 20]))]
    if c == 3:   # the PLT expression shape
        return [("breg", R["sp"], 8), ("breg", R["ra"], 0), ("lit", 15), ("and",), ("lit", 11), ("ge",),
                ("lit", 3), ("shl",), ("plus",)]
    if c == 4:
        return [("breg", R["sp"], 0), ("deref",)]
    if c == 5:
        return [("breg", rng.choice([0, 3, 12]), 8)]                    # register framehop does not track
    return [("lit", rng.choice([0, 0x7000, 0x7040]))]

def rand_regrule(rng, arch, slot_bias):
    c = rng.below(20)
    if c < 8:
        return ("o", slot_bias)
    if c < 10:
        return ("o", rng.choice([-8, -16, -24, -32, -12, 8, 0, -(1 << 20), (1 << 40), -(1 << 62)]))
    if c < 13:
        return ("s",)
    if c < 16:
        return ("u",)
    if c == 16:
        return ("vo", rng.choice([-8, 0, 16]))
    if c == 17:
        R = ARCH_REGS[arch]
        return ("reg", rng.choice([R["fp"], R["ra"], R["sp"], 3]))
    if c == 18:
        return ("e", rand_expr(rng, arch))
    return ("ve", rand_expr(rng, arch))

def rand_row(rng, arch):
    R = ARCH_REGS[arch]
    c = rng.below(20)
    gran = 8 if arch == "x86" else 16
    if c < 9:
        off = gran * rng.choice([0, 1, 2, 3, 4, 6, 10])
        cfa = ("r", R["sp"], off)
    elif c < 12:
        cfa = ("r", R["fp"], rng.choice([16, 16, 32, 8, 24]))
    elif c < 15:
        cfa = ("r", R["sp"], rng.choice([12, 4, 20, -8, -16, 8 * 0x10000, 16 * 0x10000, 8 * 0xffff, 16 * 0xffff,
                                          (1 << 62), -(1 << 63)]))
    elif c < 17:
        cfa = ("r", rng.choice([0, 3, 5]), 16)
    else:
        cfa = ("e", rand_expr(rng, arch))
    ra_bias = -8
    fp_bias = -16
    if arch == "a64":
        ra_bias, fp_bias = rng.choice([(-8, -16), (-8, -16), (-24, -32), (-16, -8)])
    return dict(cfa=cfa, fp=rand_regrule(rng, arch, fp_bias), ra=rand_regrule(rng, arch, ra_bias))

def std_row(arch, kind, k=2):
    """Well-behaved rows with a distinguishable sp delta: kind in frameless|fp|leaf|root."""
    R = ARCH_REGS[arch]
    if arch == "x86":
        if kind == "frameless":
            return dict(cfa=("r", R["sp"], 8 * k), fp=("s",), ra=("o", -8))
        if kind == "fp":
            return dict(cfa=("r", R["fp"], 16), fp=("o", -16), ra=("o", -8))
        if kind == "leaf":
            return dict(cfa=("r", R["sp"], 8), fp=("s",), ra=("o", -8))
        return dict(cfa=("r", R["sp"], 8 * k), fp=("s",), ra=("u",))
    else:
        if kind == "frameless":
            return dict(cfa=("r", R["sp"], 16 * k), fp=("s",), ra=("o", -8))
        if kind == "fp":
            return dict(cfa=("r", R["fp"], 16), fp=("o", -16), ra=("o", -8))
        if kind == "leaf":
            return dict(cfa=("r", R["sp"], 0), fp=("s",), ra=("s",))
        return dict(cfa=("r", R["sp"], 16 * k), fp=("s",), ra=("u",))

def rand_fdes(rng, arch, nf, base_svma=0, lo=0x1000, random_rows=True):
    """nf FDEs with disjoint non-empty ranges (gaps, adjacent, single byte)."""
    fdes = []
    pos = base_svma + lo
    for i in range(nf):
        if rng.chance(1, 3):
            pos += rng.choice([1, 4, 0x10, 0x100])                       # gap
        ln = rng.choice([1, 2, 4, 0x10, 0x40, 0x100])
        nrows = rng.range(1, 3)
        rows = []
        offs = sorted(set([0] + [rng.below(ln) for _ in range(nrows - 1)]))
        for o in offs:
            rows.append((o, rand_row(rng, arch) if random_rows and rng.chance(2, 3)
                         else std_row(arch, rng.choice(["frameless", "fp", "leaf", "root"]), 2 + (i % 5))))
        fdes.append(dict(start=pos, len=ln, rows=rows, ok=not rng.chance(1, 25)))
        pos += ln
    return fdes

def probes_for(fdes, base_svma, base_avma):
    """interesting code addresses (avma): every boundary +-1, inside, gaps, before first, after last"""
    ps = set()
    for f in fdes:
        s, e = f["start"] - base_svma + base_avma, f["start"] + f["len"] - base_svma + base_avma
        for a in (s - 1, s, s + 1, e - 1, e, e + 1):
            if a >= 0:
                ps.add(a)
        for off, _ in f["rows"]:
            ps.add(s + off); ps.add(max(0, s + off - 1))
    return sorted(ps)

def regs_for(s, rng, arch, ip, base, nw):
    if arch == "x86":
        return s.regs_x86(ip, sp_like(rng, base, nw), sp_like(rng, base, nw))
    return s.regs_a64(rng.choice([M64, (1 << 40) - 1, (1 << 48) - 1]), rng.choice([ip, 0x20000 + rng.below(0x1000), 0]),
                      sp_like(rng, base, nw), sp_like(rng, base, nw))

def dwarf_world(rng, arch, nmods=3, nf=6, nprobes=60, policy="may", with_iter=False, random_rows=True,
                shared_cache=True, name="dwarf"):
    """Modules of all three presentations, one unwinder, unwind calls at boundary-biased addresses."""
    s = Script(arch, policy)
    base_stack, nw = 0x7000, 48
    mods = []
    for i in range(nmods):
        base_svma = rng.choice([0, 0, 0x100000000, 0x400000])
        base_avma = 0x10000 + 0x40000 * i + rng.choice([0, 0x1000])
        fdes = rand_fdes(rng, arch, 0 if rng.chance(1, 8) else rng.range(1, nf), base_svma, 0x1000, random_rows)
        pres = rng.choice(["hdr", "eh", "debug"])
        hi = max([f["start"] + f["len"] for f in fdes] + [base_svma + 0x1000]) - base_svma + 0x100
        start = base_avma + rng.choice([0, 0, 0x800])
        end = base_avma + hi
        s.module_dwarf("M%d" % i, start, end, base_avma, base_svma, pres, fdes, rng, shuffle=rng.chance(1, 2),
                       n_cies=rng.range(1, 3), pcrel=(pres != "debug" and rng.chance(1, 3)),
                       hdr_enc=rng.choice(["abs8", "gnu"]))
        mods.append((i, start, end, base_avma, base_svma, fdes, pres))
    ipl = 0x11010
    s.mem("S", stack_window(rng, base_stack, nw, ipl, holes=True, signbits=(0xab << 56) if arch == "a64" else 0))
    s.mem("E", [])
    s.add("new U")
    for i in range(nmods):
        s.add("add U M%d" % i)
    s.add("newcache C")
    allp = []
    for (i, start, end, ba, bs, fdes, pres) in mods:
        for a in probes_for(fdes, bs, ba):
            allp.append((a, pres))
        allp += [(start - 1, pres), (start, pres), (end - 1, pres), (end, pres)]
    for _ in range(nprobes):
        a, pres = rng.choice(allp)
        kind = rng.choice(["ip", "ra"])
        addr = a if kind == "ip" else a + 1
        if kind == "ra" and addr == 0:
            continue
        memid = "S" if rng.chance(7, 8) else "E"
        s.add("unwind U C %s %s %s %s" % (kind, hx(addr), regs_for(s, rng, arch, a, base_stack, nw), memid),
              tag="%s:%s:%s" % (arch, pres, kind))
        if with_iter and rng.chance(1, 4):
            s.add("newcache CI")
            s.add("newcache CM")
            rg = regs_for(s, rng, arch, a, base_stack, nw)
            n = rng.range(1, 8)
            via = rng.below(2)
            li = s.add("iter U CI %s %s %s %d %d" % (hx(a), rg, memid, n, via), tag="%s:iter:%d" % (arch, via))
            lm = s.add("manual U CM %s %s %s %d" % (hx(a), rg, memid, n))
            s.meta[li] = {"twin": lm}
    s.add("stats C")
    return name + "-" + arch + "-" + policy, s


def empty_fde_world(rng, arch, policy="may"):
    """Modules whose CFI section holds CIEs but not a single FDE, in all three presentations (framehop's own index is
    then empty: seeded changes C09-2 / C14-2 indexed it unchecked), probed as instruction pointer and return address."""
    s = Script(arch, policy)
    for i, pres in enumerate(("hdr", "eh", "debug")):
        base = 0x10000 + 0x40000 * i
        s.module_dwarf("M%d" % i, base, base + 0x2000, base, rng.choice([0, 0x400000]), pres, [], rng, n_cies=rng.range(1, 2))
    s.mem("S", stack_window(rng, 0x7000, 48, 0x11010, holes=False, signbits=0))
    s.add("new U")
    for i in range(3):
        s.add("add U M%d" % i)
    s.add("newcache C")
    for i, pres in enumerate(("hdr", "eh", "debug")):
        base = 0x10000 + 0x40000 * i
        for a in (base, base + 1, base + 0x1000, base + 0x1fff):
            for kind in ("ip", "ra"):
                addr = a if kind == "ip" else a + 1
                s.add("unwind U C %s %s %s S" % (kind, hx(addr), regs_for(s, rng, arch, a, 0x7000, 48)),
                      tag="%s:%s:nofde:%s" % (arch, pres, kind))
    return "nofde-%s-%s" % (arch, policy), s
